"""C13 — coverage reports and saved databases equal the in-memory coverage."""
import os
import sys
sys.path.insert(0, os.path.dirname(os.path.abspath(__file__)))
import common
import cglib
from common import Check, Drv

THEOREMS = ["Pyvsc.C13.binsOf_spec", "Pyvsc.C13.saveCg_cps", "Pyvsc.C13.saveCg_cross_counts", "Pyvsc.C13.save_pure"]


def spec_check(ck, scn, impl):
    for k, (o, a) in enumerate(zip(scn["ops"], impl)):
        if o["op"] != "save" or not isinstance(a, dict) or "tree" not in a:
            continue
        case = {"ops": scn["ops"][:k + 1]}
        st = a["state_before"]
        if a["state_before"] != a["state_after"]:
            ck.oracle_fail("report:state-changed", case, "state differs after report/save", "unchanged")
        tree = a["tree"]
        # every type and instance, coverpoint, cross, bin with the in-memory names and counts
        if len(tree) != len(st["types"]):
            ck.oracle_fail("report:type-count", case, len(tree), len(st["types"]))
            continue
        # the report lists types grouped by class in registration order; match by content
        used = set()
        for ti, t in enumerate(st["types"]):
            members = [it for it in st["insts"] if it["tidx"] == ti]
            def cg_matches(rc, ms):
                if [p["name"] for p in rc["cps"]] != [p["name"] for p in ms["cp"]]:
                    return "coverpoint names"
                for p, q in zip(rc["cps"], ms["cp"]):
                    got = [(b[0], b[2]) for b in p["bins"] if b[3] == "cvg"]
                    if got != list(zip(q["names"], q["hits"])):
                        return "bins of %s: %s vs %s" % (p["name"], got[:4], list(zip(q["names"], q["hits"]))[:4])
                    if [b[2] for b in p["bins"] if b[3] == "ignore"] != q["ign"] or [b[2] for b in p["bins"] if b[3] == "illegal"] != q["ill"]:
                        return "ignore/illegal counts of %s" % p["name"]
                if [x["name"] for x in rc["crosses"]] != [x["name"] for x in ms["cross"]]:
                    return "cross names"
                for x, y in zip(rc["crosses"], ms["cross"]):
                    if [(b[0], b[2]) for b in x["bins"]] != list(zip(y["names"], y["hits"])):
                        return "cross bins of %s" % x["name"]
                return None
            cand = [i for i, rt in enumerate(tree) if i not in used and cg_matches(rt["cg"], t["st"]) is None
                    and len(rt["insts"]) == len(members)
                    and all(cg_matches(ri, m["st"]) is None for ri, m in zip(rt["insts"], members))]
            if not cand:
                why = [cg_matches(rt["cg"], t["st"]) for rt in tree]
                ck.oracle_fail("report:type-missing-or-wrong", case, {"type": t["name"], "why": why}, "type %s with its %d instances present with in-memory names/counts" % (t["name"], len(members)))
                continue
            # among the entries with the right content prefer the one that also carries the in-memory name
            named = [i for i in cand if tree[i]["cg"].get("name") == t["name"]]
            used.add((named or cand)[0])
            rt = tree[(named or cand)[0]]
            if rt["cg"].get("name") != t["name"]:
                ck.oracle_fail("report:type-name", case, {"reported": rt["cg"].get("name"), "in_memory": t["name"]},
                               "the type covergroup is reported under its in-memory name")
            for ri, mi in zip(rt["insts"], members):
                # instance scopes may get a _k suffix when two instances share a name
                if not str(ri.get("name", "")).startswith(str(mi.get("name", ""))):
                    ck.oracle_fail("report:instance-name", case, {"reported": ri.get("name"), "in_memory": mi.get("name")},
                                   "the instance is reported under its in-memory name (possibly with a _k suffix)")
            # percentages agree with get_coverage()/get_inst_coverage()  (crosses carry weight 1 in PyUCIS)
            def pct(rc, ms, sh_has_xw):
                for p, q in zip(rc["cps"], ms["cp"]):
                    if abs(p["coverage"] - q["cov_f"]) > 1e-9:
                        return "coverpoint %s: report %r vs get_inst_coverage %r" % (p["name"], p["coverage"], q["cov_f"])
                for x, y in zip(rc["crosses"], ms["cross"]):
                    if abs(x["coverage"] - y["cov_f"]) > 1e-9:
                        return "cross %s: report %r vs get_coverage %r" % (x["name"], x["coverage"], y["cov_f"])
                if abs(rc["coverage"] - ms["cov_f"]) > 5.1e-5:
                    return "covergroup: report %r vs get_coverage %r" % (rc["coverage"], ms["cov_f"])
                return None
            r = pct(rt["cg"], t["st"], False)
            if r:
                ck.oracle_fail("report:percentage", case, r, "equal")
            for ri, m in zip(rt["insts"], members):
                r = pct(ri, m["st"], False)
                if r:
                    ck.oracle_fail("report:percentage-inst", case, r, "equal")
        # text rendering: same names, counts, percentages (rounded to 2 places)
        items = cglib.parse_text_report(a["text"])
        exp = []
        for rt in tree:
            def emit(c, kind):
                exp.append((kind, c["name"], round(c["coverage"], 2)))
                for p in c["cps"]:
                    exp.append(("CVP", p["name"], round(p["coverage"], 2)))
                    for b in p["bins"]:
                        exp.append(("BIN", b[0], b[2]))
                for x in c["crosses"]:
                    exp.append(("CROSS", x["name"], round(x["coverage"], 2)))
                    for b in x["bins"]:
                        exp.append(("BIN", b[0], b[2]))
            emit(rt["cg"], "TYPE")
            for ri in rt["insts"]:
                emit(ri, "INST")
        def close(x, y):
            return x[0] == y[0] and x[1] == y[1] and abs(x[2] - y[2]) < 0.011
        if len(items) != len(exp) or not all(close(x, y) for x, y in zip(items, exp)):
            bad = next((i for i, (x, y) in enumerate(zip(items, exp)) if not close(x, y)), min(len(items), len(exp)))
            ck.oracle_fail("report:text", case, items[bad:bad + 3], exp[bad:bad + 3])
        # XML round trip: names and hit counts
        x = a["xml"]
        if isinstance(x, dict):
            ck.oracle_fail("report:xml-exception", case, x, "readable XML")
        else:
            def strip(c):
                return {"name": c["name"], "cps": [{"name": p["name"], "bins": [[b[0], b[2], b[3]] for b in p["bins"]]} for p in c["cps"]],
                        "crosses": [{"name": q["name"], "bins": [[b[0], b[2]] for b in q["bins"]]} for q in c["crosses"]]}
            s1 = [{"cg": strip(t["cg"]), "insts": [strip(i) for i in t["insts"]]} for t in tree]
            s2 = [{"cg": strip(t["cg"]), "insts": [strip(i) for i in t["insts"]]} for t in x]
            if s1 != s2:
                ck.oracle_fail("report:xml-roundtrip", case, "XML read-back differs in names/counts", "same data")


def main():
    tier, seed, replay = common.parse_args(sys.argv[1:])
    ck = Check("C13", tier, seed, ["C13"])
    try:
        obligations = common.obligations_for(["C13"])
        vsc = common.setup_repo_path()
        drv = Drv()
        n = 1500 if tier == "thorough" else 80
        scns, sb, dropped = cglib.gen_valid_scenarios(ck.rng, drv, n, opts=True, cross_prob=0.5, with_save=True)
        models = drv.batch([cglib.model_request(s) for s in scns])
        distinct = set()
        for scn, model in zip(scns, models):
            impl = cglib.run_impl(vsc, scn)
            ck.count("eval_scenarios")
            ck.count("saves", sum(1 for o in scn["ops"] if o["op"] == "save"))
            distinct.add(str(scn["ops"])[:3000])
            cglib.compare_model(ck, scn, impl, model, "C13", fields=("new", "save"))
            if not (impl and isinstance(impl[-1], dict) and "exc" in impl[-1] and "tb" in impl[-1]):
                common.guarded(ck, "C13-oracle", {"ops": scn["ops"]}, spec_check, ck, scn, impl)
        ck.sample({"scenario_ops": scns[0]["ops"][:3], "n_ops": len(scns[0]["ops"])})
        ck.cov.update({"distinct_nontrivial": len(distinct), "programs": len(scns),
                       "rule": "generated covergroup populations (classes, parameterised variants, up to 5 instances, all bin kinds, crosses, at_least/weight options) with get_coverage_report_model / get_coverage_report(details=True) / write_coverage_db + XML read-back at random points of the sample history and at its end; every scenario is non-trivial (contains at least one report call after samples)",
                       "zero_bin_scenarios_dropped": dropped})
        rc = ck.finish(obligations=obligations,
                       assumptions=["PyUCIS (report builder, text formatter, XML writer/reader) is an external library: its XML round trip does not preserve at_least, so the XML read-back is compared on names and hit counts; crosses always carry weight 1 in its report model, so generated cross weights are 1",
                                    "text percentages are compared after the formatter's rounding to 2 places"],
                       theorems_lost=THEOREMS)
        sys.exit(rc)
    except common.InfraError as e:
        print("INFRA-ERROR: " + str(e))
        sys.exit(common.EXIT_INFRA)


if __name__ == "__main__":
    common.run_main(main)
