"""List scenarios on the real library: scalar fields + scalar lists (fixed size random / non-random,
random size), constraints with foreach / sum / unique / membership / size / element references, and
histories of randomize / append / clear / setitem.  Observation as in solvelib (recording proxy)."""
import common
import solvelib as S

vsc = S.vsc


def mk_list(l):
    t = (vsc.int_t if l["s"] else vsc.bit_t)(l["w"])
    if l["randsz"]:
        return vsc.randsz_list_t(t)
    if l["rand"]:
        return vsc.rand_list_t(t, sz=len(l["init"]))
    return vsc.list_t(t, init=list(l["init"])) if l["init"] else vsc.list_t(t)


def emit_expr(o, scn, e, ctx):
    names = scn["_names"]
    k = e["k"]
    if k == "it":
        return ctx["it"]
    if k == "idx":
        return ctx["idx"]
    if k == "elem":
        lst = getattr(o, scn["lists"][e["l"]]["name"])
        return lst[emit_expr(o, scn, e["idx"], ctx)]
    if k == "sum":
        return getattr(o, scn["lists"][e["l"]]["name"]).sum
    if k == "product":
        return getattr(o, scn["lists"][e["l"]]["name"]).product
    if k == "size":
        return getattr(o, scn["lists"][e["l"]]["name"]).size
    if k in ("inl", "notinl"):
        lhs = emit_expr(o, scn, e["e"], ctx)
        lst = getattr(o, scn["lists"][e["l"]]["name"])
        return lhs.inside(lst) if k == "inl" else lhs.not_inside(lst)
    if k == "lref":
        return getattr(o, scn["lists"][e["l"]]["name"])
    if k == "int":
        return e["v"]
    if k == "lit":
        return (vsc.signed if e["s"] else vsc.unsigned)(e["v"], e["w"])
    if k == "fld":
        return getattr(o, names[e["i"]])
    if k == "bin":
        l = emit_expr(o, scn, e["l"], ctx)
        r = emit_expr(o, scn, e["r"], ctx)
        return S.PYOPS[e["op"]](l, r)
    if k == "not":
        return ~emit_expr(o, scn, e["e"], ctx)
    if k == "psel":
        f = emit_expr(o, scn, e["e"], ctx)
        return f[e["hi"]] if e.get("bit") else f[e["hi"]:e["lo"]]
    if k in ("in", "notin"):
        lhs = emit_expr(o, scn, e["e"], ctx)
        items = []
        for r in e["rl"]:
            if "single" in r:
                items.append(emit_expr(o, scn, r["single"], ctx))
            else:
                items.append((emit_expr(o, scn, r["lo"], ctx), emit_expr(o, scn, r["hi"], ctx)))
        rl = vsc.rangelist(*items)
        return lhs.inside(rl) if k == "in" else lhs.not_inside(rl)
    raise Exception("list emit_expr " + k)


def emit_stmts(o, scn, stmts, ctx):
    for s in stmts:
        k = s["k"]
        if k == "expr":
            emit_expr(o, scn, s["e"], ctx)
        elif k == "soft":
            vsc.soft(emit_expr(o, scn, s["e"], ctx))
        elif k == "unique":
            vsc.unique(*[emit_expr(o, scn, x, ctx) for x in s["es"]])
        elif k == "raise":
            raise common.FaultInjected()
        elif k == "unique_vec":
            vsc.unique_vec(*[getattr(o, scn["lists"][li]["name"]) for li in s["ls"]])
        elif k == "solve_order":
            def ref(x):
                with vsc.raw_mode():
                    return getattr(o, scn["lists"][x["list"]]["name"] if "list" in x else scn["_names"][x["fld"]])
            vsc.solve_order(ref(s["before"]), ref(s["after"]))
        elif k == "implies":
            with vsc.implies(emit_expr(o, scn, s["c"], ctx)):
                emit_stmts(o, scn, s["b"], ctx)
        elif k == "if":
            with vsc.if_then(emit_expr(o, scn, s["c"], ctx)):
                emit_stmts(o, scn, s["t"], ctx)
            for ei in s["elifs"]:
                with vsc.else_if(emit_expr(o, scn, ei["c"], ctx)):
                    emit_stmts(o, scn, ei["t"], ctx)
            if s.get("else") is not None:
                with vsc.else_then:
                    emit_stmts(o, scn, s["else"], ctx)
        elif k == "foreach":
            lst = getattr(o, scn["lists"][s["l"]]["name"])
            with vsc.foreach(lst, it=s["it"], idx=s["idx"]) as x:
                c2 = dict(ctx)
                if s["it"] and s["idx"]:
                    c2["idx"], c2["it"] = x
                elif s["idx"]:
                    c2["idx"] = x
                else:
                    c2["it"] = x
                emit_stmts(o, scn, s["body"], c2)
        else:
            raise Exception("list emit_stmts " + k)


_n = [0]


def build_class(scn, extra_methods=None):
    fields, lists = scn["fields"], scn["lists"]
    scn["_names"] = [f["name"] for f in fields]

    def __init__(self):
        for f in fields:
            setattr(self, f["name"], S.mk_field(f))
        for l in lists:
            setattr(self, l["name"], mk_list(l))
    d = {"__init__": __init__}
    for b in scn["blocks"]:
        def mk(stmts):
            def body(self):
                emit_stmts(self, scn, stmts, {})
            return body
        fn = mk(b["stmts"])
        fn.__name__ = b["name"]
        d[b["name"]] = vsc.constraint(fn)
    d.update(extra_methods or {})
    _n[0] += 1
    return vsc.randobj(type("LS%d" % _n[0], (object,), d))


def exposures(o, scn):
    out = []
    for l in scn["lists"]:
        lst = getattr(o, l["name"])
        n = len(lst)
        try:
            byidx = [int(lst[i]) for i in range(n)]
        except Exception as e:
            byidx = "exc:" + type(e).__name__
        try:
            it = [int(x) for x in lst]
        except IndexError:
            # len() promises more elements than the list holds: the iteration stops where the element models end
            it = "exc:IndexError"
        out.append({"len": n, "size": int(lst.size), "index": byidx, "iter": it, "models": len(lst.get_model().field_l)})
    return out


def raw_lists(o, scn):
    """model-level content: every element field (hidden ones included) and the size field"""
    out = []
    for l in scn["lists"]:
        m = getattr(o, l["name"]).get_model()
        out.append({"vals": [int(f.get_val()) for f in m.field_l], "size": int(m.size.get_val())})
    return out


def run(scn):
    """execute the ops; one record per op"""
    from vsc.model.rand_state import RandState
    cls = build_class(scn)
    with common.quiet():
        o = cls()
    S.set_values(o, scn)
    for l in scn["lists"]:
        # element fields created before the list got its name are called "<unknown-array>[k]"; names only label the
        # solver variables, so give them the names later elements get (FieldArrayModel.name_elems)
        getattr(o, l["name"]).get_model().name_elems()
    for l in scn["lists"]:
        if l["rand"] and not l["randsz"]:
            lst = getattr(o, l["name"])
            for i, v in enumerate(l["init"]):
                lst[i] = v
    names = scn["_names"]
    out = []
    for op in scn["ops"]:
        k = op["op"]
        rec = {"op": op}
        if k == "append":
            getattr(o, scn["lists"][op["l"]]["name"]).append(op["v"])
        elif k == "extend":
            getattr(o, scn["lists"][op["l"]]["name"]).extend(op["vs"])
        elif k == "clear":
            getattr(o, scn["lists"][op["l"]]["name"]).clear()
        elif k == "setitem":
            lst = getattr(o, scn["lists"][op["l"]]["name"])
            if op["i"] < len(lst):
                lst[op["i"]] = op["v"]
        elif k == "set":
            setattr(o, names[op["i"]], op["v"])
        elif k == "randomize":
            before_s = S.get_values(o, scn)
            before_l = raw_lists(o, scn)
            del S.EV[:]
            outcome, exc = "ok", None
            grown = []
            del S.ON_SOLVE[:]
            S.ON_SOLVE.append(lambda: grown.append([len(getattr(o, l["name"]).get_model().field_l) for l in scn["lists"]]))
            try:
                o.set_randstate(RandState.mkFromSeed(op["seed"]))
                with common.quiet():
                    if op.get("inline") is not None:
                        with o.randomize_with() as it:
                            emit_stmts(it, scn, op["inline"], {})
                    else:
                        o.randomize()
            except S.SolveFailure:
                outcome = "solveFailure"
            except Exception as e:
                import traceback
                outcome = "exception"
                exc = "%s: %s | %s" % (type(e).__name__, str(e)[:200], traceback.format_exc().strip().split("\n")[-3].strip()[:160])
            S.check_budget()
            ev = list(S.EV)
            rsets, uncon, bounds, btors, draws = S.split_events(ev)
            # element fields each list had during the solve (a random-size list is grown for the solve and trimmed after)
            rec["grown"] = grown[0] if grown else [len(x["vals"]) for x in before_l]
            rec.update({"outcome": outcome, "exc": exc, "before_s": before_s, "before_l": before_l,
                        "after_s": S.get_values(o, scn), "after_l": raw_lists(o, scn),
                        "rsets": rsets, "uncon": uncon, "btors": btors, "bounds": bounds, "draws": draws})
        rec["exposed"] = exposures(o, scn)
        out.append(rec)
    return out
