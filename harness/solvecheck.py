"""Engine shared by the solver-path checks (C01, C02, C05, ...): scenario generation, execution on
the real library, model run through pvdrv, comparison, oracles, failing-input search."""
import json
import multiprocessing
import os
import random
import sys

sys.path.insert(0, os.path.dirname(os.path.abspath(__file__)))
import common
from common import Drv

SMALL_W = [1, 2, 2, 3, 3, 4, 4, 5, 6]
BIG_W = [8, 13, 16, 31, 32, 33, 63, 64]
CMP = ["eq", "ne", "lt", "le", "gt", "ge"]
AR = ["add", "sub", "mul", "and", "or", "xor", "sll", "srl", "div", "mod"]


def F(i):
    return {"k": "fld", "i": i}


def I(v):
    return {"k": "int", "v": v}


def B(op, l, r):
    return {"k": "bin", "op": op, "l": l, "r": r}


class Gen:
    def __init__(self, rng, profile):
        self.r = rng
        self.p = dict(profile)
        self.sall = None
        if self.p.get("samesign"):
            # the region in which Python-int bound inference and the solver's reading of a comparison agree:
            # one signedness for everything, no wrap-around (see known finding F21)
            self.sall = rng.random() < 0.5
            self.p["arops"] = ["add", "sub"] if self.sall else ["add", "and", "or", "srl", "mul"]
            if not self.sall:
                self.p["enum"] = 0.0

    def fields(self):
        r = self.r
        n = r.randint(2, 5)
        big = r.random() < self.p.get("big", 0.15)
        out, bits = [], 0
        for i in range(n):
            if r.random() < self.p.get("enum", 0.12):
                k = r.randint(2, 4)
                vals = r.sample(range(-3, 9), k)
                rand = r.random() < 0.8
                out.append({"name": "f%d" % i, "w": 32, "s": True, "rand": rand, "val": r.choice(vals), "enums": vals})
                continue
            w = r.choice(BIG_W) if (big and r.random() < 0.5) else r.choice(SMALL_W)
            s = r.random() < 0.35 if self.sall is None else self.sall
            rand = r.random() < 0.75
            if rand and not big and bits + w > 13:
                w = max(1, 13 - bits)
                if bits >= 13:
                    rand = False
            if rand:
                bits += w
            lo, hi = (-(1 << (w - 1)), (1 << (w - 1)) - 1) if s else (0, (1 << w) - 1)
            val = r.choice([lo, hi, 0, 1, r.randint(lo, hi), r.randint(lo, hi)])
            val = min(max(val, lo), hi)
            out.append({"name": "f%d" % i, "w": w, "s": s, "rand": rand, "val": val, "enums": None})
            if r.random() < 0.2:
                out[-1]["attr"] = True           # declared through vsc.rand_attr / vsc.attr
        if not any(f["rand"] for f in out):
            out[0]["rand"] = True
        return out

    # expressions -------------------------------------------------------------
    def leaf_left(self, fs):
        """a leaf that may stand on the left of a Python operator: never a plain int"""
        r = self.r
        x = r.random()
        if x < 0.8:
            i = r.randrange(len(fs))
            f = fs[i]
            if not f["enums"] and f["w"] > 1 and r.random() < 0.12 and not self.sall:
                hi = r.randrange(f["w"])
                if r.random() < 0.4:
                    return {"k": "psel", "e": F(i), "hi": hi, "lo": hi, "bit": True}
                lo = r.randint(0, hi)
                return {"k": "psel", "e": F(i), "hi": hi, "lo": lo}
            return F(i)
        w = r.choice([1, 2, 4, 8, 32]) if self.sall is None else 32
        s = r.random() < 0.4 if self.sall is None else self.sall
        lo, hi = (-(1 << (w - 1)), (1 << (w - 1)) - 1) if s else (0, (1 << w) - 1)
        return {"k": "lit", "v": r.randint(lo, min(hi, lo + 40)), "s": s, "w": w}

    def leaf_right(self, fs):
        r = self.r
        if self.sall is None and r.random() < 0.04:
            # Python ints at the edges of the 32-bit signed literal type
            return I(r.choice([2**31 - 1, 2**31, -2**31, -2**31 - 1, 2**32 - 1, 2**32]))
        if r.random() < 0.5:
            if self.sall is False:
                return I(r.choice([0, 1, 2, 3, 5, 7, 8, 15, 16, r.randint(0, 40)]))
            return I(r.choice([0, 1, 2, 3, 5, 7, 8, 15, 16, -1, -2, r.randint(-8, 40)]))
        return self.leaf_left(fs)

    def arith(self, fs, d, left=True):
        r = self.r
        if self.sall is not None:
            # no wrap-around: arithmetic only against an int literal (32-bit context), one level deep
            x = self.leaf_left(fs) if left else self.leaf_right(fs)
            if d > 0 and r.random() < 0.4 and x.get("k") != "int":
                op = r.choice(self.p["arops"])
                return B(op, x, I(r.randint(0, 3)))
            return x
        if d <= 0 or r.random() < 0.45:
            return self.leaf_left(fs) if left else self.leaf_right(fs)
        op = r.choice(self.p.get("arops", AR))
        if op in ("sll", "srl"):
            return B(op, self.arith(fs, d - 1, True), self.shamt(fs))
        if op in ("div", "mod"):
            return B(op, self.arith(fs, d - 1, True), self.divisor(fs))
        return B(op, self.arith(fs, d - 1, True), self.arith(fs, d - 1, False))

    def divisor(self, fs):
        """divisors: a non-zero constant or a random field (a zero divisor in a non-random
        sub-expression is known finding F33)"""
        r = self.r
        rs = [i for i, f in enumerate(fs) if f["rand"]]
        if rs and r.random() < 0.5:
            return F(r.choice(rs))
        return I(r.choice([1, 2, 3, 5, 7, -1, 16]))

    def shamt(self, fs):
        """shift amounts: a small non-negative constant or an unsigned field (a negative amount in a
        non-random sub-expression is known finding F33, and so is an amount so large that Python cannot hold the shifted
        integer: a wide field is a shift amount only while it cannot be evaluated eagerly)"""
        r = self.r
        us = [i for i, f in enumerate(fs) if not f["s"] and not f["enums"] and (f["w"] <= 6 or (f["rand"] and f["w"] <= 20))]
        if us and r.random() < 0.4:
            return F(r.choice(us))
        return I(r.choice([0, 1, 1, 2, 3, 4, 7, 9, 33]))

    def fieldy(self, fs, d):
        """an arithmetic expression whose leftmost leaf is a field reference"""
        r = self.r
        i = r.randrange(len(fs))
        e = F(i)
        if self.sall is not None:
            if d > 0 and r.random() < 0.3:
                e = B(r.choice(self.p["arops"]), e, I(r.randint(0, 3)))
            return e
        if d > 0 and r.random() < 0.4:
            op = r.choice(self.p.get("arops", AR))
            rhs = self.shamt(fs) if op in ("sll", "srl") else self.divisor(fs) if op in ("div", "mod") else self.arith(fs, d - 1, False)
            e = B(op, e, rhs)
        return e

    def rangelist(self, fs):
        r = self.r
        items = []
        for _ in range(r.randint(1, 3)):
            if r.random() < 0.5:
                items.append({"single": self.leaf_right(fs) if r.random() < 0.8 else self.arith(fs, 1)})
            else:
                a = r.randint(0 if self.sall is False else -4, 20)
                b = a + r.randint(0, 6)
                if r.random() < 0.25:
                    items.append({"lo": self.leaf_left(fs), "hi": self.leaf_right(fs)})
                else:
                    items.append({"lo": I(a), "hi": I(b)})
        return items

    def boolean(self, fs, d):
        r = self.r
        x = r.random()
        if d > 0 and x < 0.18:
            return B(r.choice(["and", "or"]), self.boolean(fs, d - 1), self.boolean(fs, d - 1))
        if d > 0 and x < 0.26:
            return {"k": "not", "e": self.boolean(fs, d - 1)}
        if x < 0.42:
            return {"k": r.choice(["in", "in", "notin"]), "e": self.fieldy(fs, 1), "rl": self.rangelist(fs)}
        en = [i for i, f in enumerate(fs) if f["enums"]]
        if en and r.random() < 0.3:
            # an enum field against an enumerator written as the Python enum member
            i = r.choice(en)
            m = r.randrange(len(fs[i]["enums"]))
            return B(r.choice(CMP), F(i), {"k": "enumlit", "enums": fs[i]["enums"], "m": m, "v": fs[i]["enums"][m]})
        us = [i for i, f in enumerate(fs) if not f["s"] and not f["enums"] and f["w"] > 1]
        if us and not self.sall and r.random() < 0.12:
            # a part-select anchored at bit 0 or at the msb against a small constant: it constrains some bits of the field,
            # never the field as a whole
            i = r.choice(us)
            w = fs[i]["w"]
            hi, lo = (w - 1, r.randint(1, w - 1)) if r.random() < 0.5 else (r.randint(0, w - 2), 0)
            return B(r.choice(CMP), {"k": "psel", "e": F(i), "hi": hi, "lo": lo}, I(r.randint(0, 5)))
        return B(r.choice(CMP), self.fieldy(fs, d), self.arith(fs, d, False))

    # statements --------------------------------------------------------------
    def stmt(self, fs, d, allow_soft=True):
        r = self.r
        x = r.random()
        ps = self.p.get("soft", 0.12) if allow_soft else 0.0
        if x < ps:
            return {"k": "soft", "e": self.soft_expr(fs)}
        x = r.random()
        if d > 0 and x < 0.16:
            n_el = r.choice([0, 0, 1, 2])
            return {"k": "if", "c": self.boolean(fs, 1), "t": self.stmts(fs, d - 1, 1, 2),
                    "elifs": [{"c": self.boolean(fs, 1), "t": self.stmts(fs, d - 1, 1, 2)} for _ in range(n_el)],
                    "else": self.stmts(fs, d - 1, 1, 2) if r.random() < 0.5 else None}
        if d > 0 and x < 0.26:
            return {"k": "implies", "c": self.boolean(fs, 1), "b": self.stmts(fs, d - 1, 1, 2)}
        if x < 0.36 and len(fs) >= 2:
            k = r.randint(2, min(3, len(fs)))
            idx = r.sample(range(len(fs)), k)
            es = [F(i) for i in idx]
            if r.random() < 0.2:
                es[-1] = self.fieldy(fs, 1)
            return {"k": "unique", "es": es}
        if self.p.get("relational") and r.random() < self.p["relational"]:
            # top-level relational / in statements against non-random expressions: what bound inference reads
            i = r.randrange(len(fs))
            nr = [j for j, f in enumerate(fs) if not f["rand"]]
            x = r.random()
            if x < 0.3:
                return {"k": "expr", "e": {"k": "in", "e": F(i), "rl": self.rangelist([fs[j] for j in nr] or fs[:1]) if False else self.const_rangelist(fs, nr)}}
            rhs = self.nonrand_expr(fs, nr)
            e = B(r.choice(["lt", "le", "gt", "ge", "eq"]), F(i), rhs)
            if r.random() < 0.25:
                e = B({"lt": "gt", "le": "ge", "gt": "lt", "ge": "le", "eq": "eq"}[e["op"]], rhs if rhs["k"] != "int" else F(r.randrange(len(fs))), F(i))
            return {"k": "expr", "e": e}
        return {"k": "expr", "e": self.boolean(fs, self.p.get("depth", 2))}

    def nonrand_expr(self, fs, nr):
        r = self.r
        x = r.random()
        lo = 0 if self.sall is False else -6
        if x < 0.35 or not nr:
            if r.random() < 0.3:
                return F(r.randrange(len(fs)))      # another field: variable-variable propagators
            return I(r.randint(lo, 20))
        j = r.choice(nr)
        if x < 0.6:
            return F(j)
        op = r.choice(self.p.get("arops", ["add"]))
        return B(op, F(j), I(r.randint(0, 4)))

    def const_rangelist(self, fs, nr):
        r = self.r
        items = []
        lo = 0 if self.sall is False else -6
        for _ in range(r.randint(1, 3)):
            if r.random() < 0.5:
                a = r.randint(lo, 14)
                items.append({"lo": I(a), "hi": I(a + r.randint(0, 7))})
            elif nr and r.random() < 0.4:
                items.append({"single": B("add", F(r.choice(nr)), I(r.randint(0, 3)))})
            else:
                items.append({"single": I(r.randint(lo, 15))})
        return items

    def soft_expr(self, fs):
        r = self.r
        i = r.randrange(len(fs))
        return B(r.choice(["eq", "eq", "lt", "gt", "ne", "le"]), F(i), self.leaf_right(fs))

    def stmts(self, fs, d, lo, hi):
        return [self.stmt(fs, d) for _ in range(self.r.randint(lo, hi))]

    def scenario(self):
        r = self.r
        fs = self.fields()
        if any(f["w"] > 16 and not f.get("enums") for f in fs):
            # multiplication / division over wide fields makes single SAT calls run for hours: wide fields are exercised
            # with the other operators, the hard operators with fields up to 16 bits
            self.p = dict(self.p, arops=[o for o in self.p.get("arops", AR) if o not in ("mul", "div", "mod")])
        nb = r.choice([1, 1, 2])
        blocks = [{"name": "c%d" % i, "stmts": self.stmts(fs, 2, 1, self.p.get("maxstmts", 4))} for i in range(nb)]
        if r.random() < self.p.get("islands", 0.06):
            # several independent groups of fields, each established by its own statement, then statements that link
            # them one after the other: every link merges two rand sets that already exist
            n = r.choice([5, 6, 6])
            sg = bool(self.sall)
            fs = [{"name": "f%d" % i, "w": 2, "s": sg, "rand": True, "val": 0, "enums": None} for i in range(n)]
            order = list(range(n))
            r.shuffle(order)
            islands = [order[i:i + 2] for i in range(0, n, 2)]
            st = []
            for isl in islands:
                if len(isl) == 2:
                    st.append({"k": "expr", "e": B(r.choice(["lt", "le", "ne"]), F(isl[0]), F(isl[1]))})
                else:
                    st.append({"k": "expr", "e": B("le", F(isl[0]), I(1))})
            for a_, b_ in zip(islands, islands[1:]):
                st.append({"k": "expr", "e": B(r.choice(["eq", "le", "eq"]), F(r.choice(a_)), F(r.choice(b_)))})
            blocks = [{"name": "c0", "stmts": st}]
        calls = []
        for _ in range(r.randint(1, self.p.get("calls", 2))):
            inline = self.stmts(fs, 1, 1, 2) if r.random() < self.p.get("inline", 0.3) else None
            calls.append({"inline": inline, "seed": r.randrange(1 << 30)})
        nonrand = [i for i, f in enumerate(fs) if not f["rand"]]
        for c in calls[1:]:
            if nonrand and r.random() < self.p.get("reassign", 0.5):
                sets = []
                for i in r.sample(nonrand, r.randint(1, len(nonrand))):
                    f = fs[i]
                    if f.get("enums"):
                        sets.append([i, r.choice(f["enums"])])
                    else:
                        lo, hi = (-(1 << (f["w"] - 1)), (1 << (f["w"] - 1)) - 1) if f["s"] else (0, (1 << f["w"]) - 1)
                        sets.append([i, min(max(r.choice([lo, hi, 0, 1, r.randint(lo, hi), r.randint(lo, hi)]), lo), hi)])
                c["set"] = sets
        scn = {"fields": fs, "blocks": blocks, "calls": calls}
        if self.p.get("rangelists"):
            # range lists held by the object, referred to by the constraints and edited between the calls
            def item():
                if r.random() < 0.5:
                    return {"single": I(r.randint(-2, 9))}
                a = r.randint(-2, 8)
                return {"lo": I(a), "hi": I(a + r.randint(0, 4))}
            scn["rangelists"] = [[item() for _ in range(r.randint(1, 3))] for _ in range(r.choice([1, 1, 2]))]
            rand_f = [i for i, f in enumerate(fs) if not f.get("enums")] or [0]
            for k in range(len(scn["rangelists"])):
                blocks[r.randrange(len(blocks))]["stmts"].append(
                    {"k": "expr", "e": {"k": r.choice(["inrl", "inrl", "notinrl"]), "e": F(r.choice(rand_f)), "rl": k}})
            calls += [{"inline": None, "seed": r.randrange(1 << 30)} for _ in range(r.randint(1, 2))]
            for c in calls[1:]:
                ops = []
                for _ in range(r.choice([0, 1, 1, 2])):
                    k = r.randrange(len(scn["rangelists"]))
                    d = r.random()
                    if d < 0.3:
                        ops.append({"rl": k, "op": "clear"})
                    elif d < 0.75:
                        ops.append({"rl": k, "op": "append", "item": item()})
                    else:
                        ops.append({"rl": k, "op": "extend", "items": [item() for _ in range(r.randint(1, 2))]})
                c["rl_ops"] = ops
        return scn


# ----------------------------------------------------------------------------- execution / comparison

OPTS = {"bounds": False, "range_oracle": False, "order_groups": False}

def expand_dyn(x, dyn):
    """what a reference to a dynamic block denotes for the model: the class's block of that name.
    A statement `it.d()` stands for the block's statements; a term `it.d()` for their conjunction."""
    if isinstance(x, list):
        out = []
        seen = set()
        for s in x:
            if isinstance(s, dict) and s.get("k") == "dyncall":
                if s["name"] in seen:
                    continue        # the same block statements are already in their rand sets (identity)
                seen.add(s["name"])
                out.extend(expand_dyn(dyn[s["name"]], dyn))
            else:
                out.append(expand_dyn(s, dyn))
        return out
    if isinstance(x, dict):
        if x.get("k") == "dyn":
            return {"k": "dynx", "es": [expand_dyn(s["e"], dyn) for s in dyn[x["name"]]]}
        return {k: expand_dyn(v, dyn) for k, v in x.items()}
    return x


def scenario_requests(S, scn):
    """run the scenario on the real library; returns per call the observation and the pvdrv request"""
    from vsc.model.rand_state import RandState
    out = []
    cls, names = S.build_class(scn)
    insts = []
    for _ in range(scn.get("instances", 1)):
        with common.quiet():
            oi = cls()
        S.set_values(oi, scn)
        insts.append(oi)
    dyn = {b["name"]: b["stmts"] for b in scn["blocks"] if b.get("dynamic")}
    fidx = {n: i for i, n in enumerate(names)}
    # current content of every object's range lists, in the order the library holds it (the constructor stores its
    # arguments last to first, append() adds at the end)
    rl_now = [[list(reversed(rl)) for rl in scn.get("rangelists", [])] for _ in insts]
    for call in scn["calls"]:
        o = insts[call.get("inst", 0) % len(insts)]
        for op in call.get("rl_ops", []):
            cur = rl_now[call.get("inst", 0) % len(insts)][op["rl"]]
            rlo = getattr(o, "rl%d" % op["rl"])
            if op["op"] == "clear":
                rlo.clear()
                del cur[:]
            elif op["op"] == "append":
                rlo.append(S.rl_item(op["item"]))
                cur.append(op["item"])
            elif op["op"] == "extend":
                rlo.extend([S.rl_item(x) for x in op["items"]])
                cur.extend(op["items"])
        # the user assigns new values to non-random fields between the calls: every formula, inferred range and dist
        # weight of this call has to be built from the values the fields hold now
        for i, v in call.get("set", []):
            f = scn["fields"][i]
            setattr(o, f["name"], S.enum_type(f["enums"])(v) if f.get("enums") else v)
        others = [(x, S.get_values(x, scn)) for x in insts if x is not o]
        before = S.get_values(o, scn)
        o.set_randstate(RandState.mkFromSeed(call["seed"]))
        outcome, exc, ev = S.run_call(o, scn, names, call)
        after = S.get_values(o, scn)
        rsets, uncon, bounds, btors, draws = S.split_events(ev)
        recs, obs = [], []
        for k, rs in enumerate(rsets):
            bt = btors[k] if k < len(btors) else []
            r = S.parse_btor(bt, rs["n_soft"]) if k < len(btors) else None
            obs.append({"rs": rs, "rec": r})
            if r is None:
                recs.append({"groups": [], "answers": []})
            else:
                recs.append({"groups": [[S.tree_json(c, fidx) for c in g] for g in r["groups"]],
                             "answers": [a if a == "unsat" else {"sat": [[fidx[kk], v] for kk, v in a["sat"].items() if kk in fidx]}
                                         for a in r["answers"]]})
        # declRand: whether the Python class of the field object is the rand_* subclass (it decides reflected comparisons)
        fields = [dict(f, val=before[i], declRand=bool(f["rand"] and not f.get("attr"))) for i, f in enumerate(scn["fields"])]
        tops = [s for b in sorted(scn["blocks"], key=lambda b: b["name"]) if not b.get("dynamic") and b.get("enabled", True)
                for s in b["stmts"]]
        if call.get("inline") is not None:
            tops = tops + call["inline"]
        tops = expand_dyn(tops, dyn)
        if scn.get("rangelists"):
            # for the model a reference to a range list is the membership test over its current content
            tops = _subst_rl(tops, rl_now[call.get("inst", 0) % len(insts)])
        moved = [k for k, (x, v) in enumerate(others) if S.get_values(x, scn) != v]
        req = {"op": "z.call", "fields": fields, "tops": tops, "rec": recs, "enumLimit": 13,
               "implFinal": after if outcome == "ok" else None,
               "draws": [list(d) for d in draws],
               "implBounds": {k: [list(r) for r in v] for k, v in bounds.items()} if OPTS["bounds"] else None,
               "order": [[b, a] for s in tops if s["k"] == "solve_order" for b in s["before"] for a in s["after"]]}
        req["tops"] = [s for s in tops if s["k"] != "solve_order"]
        out.append({"call": call, "before": before, "after": after, "outcome": outcome, "exc": exc, "other_instances_moved": moved,
                    "obs": obs, "uncon": uncon, "bounds": bounds, "n_btors": len(btors), "req": req, "draws": draws})
    return out


def _subst_rl(x, content):
    if isinstance(x, list):
        return [_subst_rl(y, content) for y in x]
    if isinstance(x, dict):
        if x.get("k") in ("inrl", "notinrl"):
            # the model's `in` mirrors the constructor (arguments last to first): hand it the content reversed
            return {"k": "in" if x["k"] == "inrl" else "notin", "e": _subst_rl(x["e"], content),
                    "rl": list(reversed(content[x["rl"]]))}
        return {k: _subst_rl(v, content) for k, v in x.items()}
    return x


def compare_call(S, scn, ci, c, m):
    """returns (corr_failures, oracle_failures, stats) for one call; m = model answer"""
    corr, orc, st = [], [], {}
    case = {"fields": scn["fields"], "blocks": scn["blocks"], "calls": scn["calls"][:ci + 1]}
    if scn.get("rangelists"):
        case["rangelists"] = scn["rangelists"]
    names = [f["name"] for f in scn["fields"]]

    def cf(what, model, impl):
        corr.append({"what": what, "case": case, "model": model, "impl": impl})

    def of(sig, observed, required):
        orc.append({"signature": sig, "case": case, "observed": observed, "required": required})
    if "__err__" in m:
        cf("model-error", m["__err__"], None)
        return corr, orc, st
    if m.get("err"):
        cf("randset-model-error", m["err"], c["outcome"])
    if c.get("other_instances_moved"):
        of("other-instance-changed", {"instances": c["other_instances_moved"]}, "a call changes only the object it is made on")
    # ---- an exception other than SolveFailure from inside the library
    if c["outcome"] == "exception":
        of("internal-exception:" + (c["exc"] or "").split(":")[0], c["exc"], "SolveFailure or normal return")
        return corr, orc, st
    mr = m["randsets"]
    ir = c["obs"]
    # ---- whole-call oracle, independent of how the implementation partitioned the statements: the statements
    # that are active per the model (= Spec) form rand sets; if every one of them is satisfiable (decided by
    # exhaustive enumeration of the reference semantics) the call must not fail
    if c["outcome"] == "solveFailure" and mr and all(a["specSat"] is True for a in mr):
        of("solvefailure-but-satisfiable", {"randsets": [a["fields"] for a in mr]}, "a satisfiable system never fails")
    if c["outcome"] == "ok" and any(a["specSat"] is False for a in mr):
        of("returned-but-unsatisfiable", {"randsets": [a["fields"] for a in mr if a["specSat"] is False]},
           "SolveFailure (no assignment satisfies the hard constraints)")
    # ---- rand sets
    if [x["fields"] for x in mr] != [x["rs"]["fields"] for x in ir]:
        cf("randsets.fields", [x["fields"] for x in mr], [x["rs"]["fields"] for x in ir])
        # the partitions differ, so the per-set comparison has nothing to align; the property itself is still judged on
        # the values the call returned: the statements of the model's rand sets are the active statements of the Spec
        if c["outcome"] == "ok":
            for a in mr:
                if a["refFail"]:
                    of("hard-constraint-violated", {"values": dict(zip(names, c["after"])), "top_level_statements": a["refFail"]},
                       "every active hard constraint holds on the returned values")
                if a["typeFail"]:
                    of("value-outside-declared-type", {"values": dict(zip(names, c["after"])), "fields": a["typeFail"]},
                       "every random field inside its declared type / enumerators")
            if m["nonrandChanged"]:
                of("nonrandom-field-changed", m["nonrandChanged"], "non-random fields keep their values")
        return corr, orc, st
    if m["unconstrained"] != [u for u in c["uncon"] if u in names]:
        cf("unconstrained", m["unconstrained"], c["uncon"])
    model_outcome = "ok"
    for k, (a, b) in enumerate(zip(mr, ir)):
        rec = b["rec"]
        if rec is None:
            # an earlier rand set failed: no solver instance for this one
            continue
        if not rec["shape_ok"]:
            cf("solve-loop.shape", "hard; soft(all, then greedy); swizzle groups each ended by Sat", "unexpected Assume/Assert/Sat sequence")
            continue
        for key in ("pre", "hard", "soft"):
            impl_l = [S.sexp(t) for t in rec[key]]
            if key == "pre":
                impl_l = sorted(set(impl_l))
                mod_l = sorted(set(a[key]))
            else:
                mod_l = a[key]
            if key == "soft" and rec["answers"] and rec["answers"][0] == "unsat":
                continue
            if impl_l != mod_l:
                cf("randset[%d].%s" % (k, key), mod_l, impl_l)
        if [S.sexp(t) for t in rec["hardAsserted"]] != [S.sexp(t) for t in rec["hard"]] and rec["answers"][0] != "unsat":
            cf("randset[%d].hard-not-asserted" % k, a["hard"], [S.sexp(t) for t in rec["hardAsserted"]])
        if a["badSat"] or a["badUnsat"]:
            cf("randset[%d].answer-invalid-under-lean-semantics" % k, {"badSat": a["badSat"], "badUnsat": a["badUnsat"]}, None)
        if len(a["log"]) != len(rec["answers"]) and a["outcome"] != "internalError":
            cf("randset[%d].queries" % k, a["log"], len(rec["answers"]))
        if a["outcome"] == "internalError":
            cf("randset[%d].model-internal-error" % k, a["log"], len(rec["answers"]))
        if a["outcome"] == "ok" and a["softKept"] != rec["softKept"]:
            cf("randset[%d].softKept" % k, a["softKept"], rec["softKept"])
        st["sat_answers"] = st.get("sat_answers", 0) + sum(1 for x in rec["answers"] if x != "unsat")
        st["unsat_answers"] = st.get("unsat_answers", 0) + sum(1 for x in rec["answers"] if x == "unsat")
        st["unsat_confirmed_by_enumeration"] = st.get("unsat_confirmed_by_enumeration", 0) + a["unsatChecked"]
        if a["outcome"] == "solveFailure":
            model_outcome = "solveFailure"
            break
    if model_outcome != c["outcome"]:
        cf("outcome", model_outcome, c["outcome"])
    if OPTS["bounds"] and "bounds" in c:
        # inferred ranges, unconstrained draws, swizzle candidates (C14 / C20)
        ib = {k: [list(r) for r in v] for k, v in c["bounds"].items() if k in names}
        mb = {k: v for k, v in m["bounds"].items() if k in ib}
        if mb != ib and not m["boundsErr"]:
            bad = sorted(k for k in ib if mb.get(k) != ib[k])
            cf("bounds", {k: mb.get(k) for k in bad}, {k: ib[k] for k in bad})
    if (OPTS["bounds"] and "bounds" in c) or OPTS["order_groups"]:
        for k, (a, b) in enumerate(zip(mr, ir)):
            rec = b["rec"]
            if rec is None or not rec["shape_ok"] or rec["answers"][0] == "unsat":
                continue
            impl_groups = [[S.sexp(t) for t in g] for g in rec["groups"]]
            mod_groups = [g for g in a["cands"]]
            # a group without candidates still ends with a Sat(); the model lists non-empty field groups only
            if OPTS["bounds"] and [g for g in impl_groups if g] != [g for g in mod_groups if g]:
                cf("randset[%d].swizzle-candidates" % k, mod_groups, impl_groups)
            if b["rs"]["order"] != a.get("order"):
                cf("randset[%d].order-groups" % k, a.get("order"), b["rs"]["order"])
            # Spec, on the groups the implementation actually walks: 'the values of a are chosen first'
            og = b["rs"]["order"]
            # the directives of the call as (before, after) pairs of field names: from the statements, or - list scenarios -
            # handed in already expanded
            dirs = [(names[x], names[y]) for blk in scn["blocks"] for s_ in blk["stmts"] if s_["k"] == "solve_order"
                    for x in s_["before"] for y in s_["after"]] + [tuple(p) for p in c.get("order_names", [])]
            if og is None:
                here = [d for d in dirs if d[0] != d[1] and d[0] in b["rs"]["fields"] and d[1] in b["rs"]["fields"]
                        and c.get("used", {}).get(d[0], True) and c.get("used", {}).get(d[1], True)]
                if here and b["rs"].get("n_hard", 1) >= 0:
                    of("solve-order-directive-ignored", {"directives": here[:4], "randset": b["rs"]["fields"]},
                       "ordered groups in which the 'before' field is randomized first")
            if og is not None:
                pos = {f: gi for gi, g in enumerate(og) for f in g}
                for nx, ny in dirs:
                    if nx in pos and ny in pos and not pos[nx] < pos[ny]:
                        of("solve-order-before-not-first", {"before": nx, "after": ny, "groups": og},
                           "the group of the 'before' field is randomized before the group of the 'after' field")
                missing = [f for f in b["rs"]["fields"] if f not in pos]
                if missing:
                    of("field-in-no-ordered-group", {"fields": missing, "groups": og}, "every field of the rand set is randomized")
            st["swizzle_candidates"] = st.get("swizzle_candidates", 0) + sum(len(g) for g in impl_groups)
            # C15, 'when nothing else constrains the field': a rand set that consists of one random field and the
            # statements of one dist must be steered by exactly one requested equality, and return that value
            dists = [s_ for blk in scn["blocks"] for s_ in blk["stmts"] if s_["k"] == "dist"]
            if c["outcome"] == "ok" and len(b["rs"]["fields"]) == 1 and len(dists) >= 1:
                fname = b["rs"]["fields"][0]
                fi = names.index(fname)
                mine = [d_ for d_ in dists if d_["e"].get("i") == fi]
                others = [s_ for blk in scn["blocks"] for s_ in blk["stmts"] if s_["k"] != "dist"]
                if len(mine) == 1 and scn["fields"][fi]["rand"] and b["rs"]["n_hard"] == 1 + len(mine[0]["weights"]) \
                        and b["rs"]["n_soft"] == 0 \
                        and not (c["call"].get("inline")):
                    import re
                    flat = [x for g in impl_groups for x in g]
                    mm = re.match(r"^\(eq .*\(const (-?\d+) (\d+)\)\)$", flat[0]) if len(flat) == 1 else None
                    got = c["after"][fi]
                    if mm is None:
                        of("dist-field-not-steered-by-weights", {"field": fname, "candidates": flat},
                           "one requested equality field == drawn value")
                    else:
                        w_ = scn["fields"][fi]["w"]
                        req_v = int(mm.group(1))

                        def _iv(x):
                            return x.get("v") if x.get("k") == "int" else None

                        def _zero_covers(wd):
                            wv = _iv(wd["w"])
                            if wv != 0:
                                return False
                            if "single" in wd:
                                return _iv(wd["single"]) == req_v
                            return _iv(wd["lo"]) is not None and _iv(wd["lo"]) <= req_v <= _iv(wd["hi"])
                        # entries may overlap; a value inside a zero-weight entry is excluded, so the request is infeasible
                        excluded = any(_zero_covers(wd) for wd in mine[0]["weights"]) or \
                            any(_iv(wd["w"]) is None for wd in mine[0]["weights"])
                        # the walk never selects an entry of weight zero (C15.zero_weight_never): the requested value lies in
                        # some entry of positive weight
                        def _pos_covers(wd):
                            wv = _iv(wd["w"])
                            if wv is None:
                                return True        # weight given by a field: not judged here
                            if wv <= 0:
                                return False
                            if "single" in wd:
                                return _iv(wd["single"]) is None or (_iv(wd["single"]) - req_v) % (1 << w_) == 0
                            return _iv(wd["lo"]) is None or _iv(wd["hi"]) is None or _iv(wd["lo"]) <= req_v <= _iv(wd["hi"])
                        if not any(_pos_covers(wd) for wd in mine[0]["weights"]):
                            of("dist-request-outside-every-positive-weight-entry", {"field": fname, "requested": req_v,
                                                                                    "weights": mine[0]["weights"]},
                               "the weighted draw selects an entry of non-zero weight and a value inside it")
                        if not excluded and (req_v - got) % (1 << w_) != 0:
                            of("dist-free-field-did-not-take-drawn-value", {"field": fname, "requested": int(mm.group(1)), "returned": got},
                               "the drawn value is returned when nothing else constrains the field")
                    st["dist_free_sets"] = st.get("dist_free_sets", 0) + 1
        if c["outcome"] == "ok" and OPTS["bounds"]:
            if not m["drawsOkAll"] or m["drawsLeft"] != 0:
                cf("draws", {"ok": m["drawsOkAll"], "left": m["drawsLeft"]}, len(c.get("draws", [])))
            for nm, v in m["unconVals"]:
                iv = c["after"][names.index(nm)]
                if iv != v:
                    cf("unconstrained." + nm, v, iv)
        st["draws"] = len(c.get("draws", []))
    # ---- final values (model read-back vs attribute reads)
    if c["outcome"] == "ok":
        for a in mr:
            for nm, v in a["final"]:
                iv = c["after"][names.index(nm)]
                if iv != v:
                    cf("final." + nm, v, iv)
    # ---- oracles on the implementation's observable results
    if c["outcome"] == "ok":
        for k, a in enumerate(mr):
            if a["refFail"]:
                of("hard-constraint-violated", {"values": dict(zip(names, c["after"])), "top_level_statements": a["refFail"]},
                   "every active hard constraint holds on the returned values")
            if a["typeFail"]:
                of("value-outside-declared-type", {"values": dict(zip(names, c["after"])), "fields": a["typeFail"]},
                   "every random field inside its declared type / enumerators")
            if a["specSat"] is False:
                of("returned-but-unsatisfiable", {"randset": a["fields"]}, "SolveFailure (no assignment satisfies the hard constraints)")
            if OPTS["bounds"] and a.get("starved") and not OPTS["range_oracle"]:
                st["range_loss_left_to_C14"] = st.get("range_loss_left_to_C14", 0) + 1
            if OPTS["range_oracle"] and a.get("starved"):
                # where a non-random operand evaluates differently on Python integers (bound inference) and as a bit-vector
                # (solver) the loss of values is known finding F21; anywhere else it is a new violation
                of("F21:python-int-bounds-vs-solver-semantics" if a.get("pyDiverges") else "feasible-value-outside-inferred-range", {"starved": a["starved"], "bounds": {n: c["bounds"].get(n) for n in a["fields"]}},
                   "the inferred range of a field contains every value it takes in some solution")
            if a["softHonoured"] is False:
                of("soft-not-greedy-maximal", {"values": dict(zip(names, c["after"])), "reference_kept": a["softRef"], "soft": a["soft"]},
                   "returned values satisfy every soft constraint the greedy-by-priority reference keeps")
        if m["droppedFail"]:
            of("statement-without-field-dropped", {"top_level_statements": m["droppedFail"]}, "every active hard constraint holds")
        if m["nonrandChanged"]:
            of("nonrandom-field-changed", m["nonrandChanged"], "non-random fields keep their values")
        if OPTS["bounds"]:
            for nm in m["unconstrained"]:
                f = scn["fields"][names.index(nm)]
                if f.get("enums"):
                    full = [[v, v] for v in sorted(f["enums"])]
                else:
                    full = [[-(1 << (f["w"] - 1)), (1 << (f["w"] - 1)) - 1]] if f["s"] else [[0, (1 << f["w"]) - 1]]
                if [list(r) for r in c["bounds"].get(nm, full)] != full:
                    of("unmentioned-field-range-narrowed", {"field": nm, "bounds": c["bounds"].get(nm)}, full)
    elif c["outcome"] == "solveFailure":
        # find the failing rand set in the model and ask the reference whether it has a solution
        for a, b in zip(mr, ir):
            if b["rec"] is not None and b["rec"]["answers"] and b["rec"]["answers"][0] == "unsat":
                if a["specSat"] is True:
                    of("solvefailure-but-satisfiable", {"randset": a["fields"]}, "a satisfiable system never fails")
                st["fail_enumerated"] = st.get("fail_enumerated", 0) + (1 if a["specSat"] is not None else 0)
        if c["after"] != c["before"]:
            chg = [n for n, x, y in zip(names, c["before"], c["after"]) if x != y and not scn["fields"][names.index(n)]["rand"]]
            if chg:
                of("nonrandom-field-changed-on-failure", chg, "non-random fields keep their values")
    st["enumerated"] = sum(1 for a in mr if a["specSat"] is not None)
    st["randsets"] = len(mr)
    st["soft"] = sum(len(a["soft"]) for a in mr)
    st["soft_rejected"] = sum(a["nSoftRejected"] for a in mr)
    return corr, orc, st


def _worker(args):
    prop, seed, idx_lo, idx_hi, profile, extra = args
    import solvelib as S
    S.install()
    drv = Drv()
    res = {"counts": {}, "corr": [], "orc": [], "samples": [], "digests": set()}

    def cnt(k, n=1):
        res["counts"][k] = res["counts"].get(k, 0) + n
    scns = []
    if extra is not None:
        scns = extra
    else:
        for i in range(idx_lo, idx_hi):
            rng = random.Random((seed * 7919 + i) * 104729 + hash(prop) % 1000)
            rng = random.Random("%s/%d/%d" % (prop, seed, i))
            scns.append(Gen(rng, profile).scenario())
    runs, reqs = [], []
    for scn in scns:
        common.note_inflight(scn)
        try:
            calls = scenario_requests(S, scn)
        except S.SolverBudget:
            cnt("abandoned_solver_budget")
            continue
        except Exception as e:
            import traceback
            res["orc"].append({"signature": "construction-exception:" + type(e).__name__,
                               "case": scn, "observed": traceback.format_exc()[-600:], "required": "the scenario constructs"})
            continue
        runs.append((scn, calls))
        reqs.extend(c["req"] for c in calls)
    models = drv.batch(reqs)
    mi = 0
    for scn, calls in runs:
        cnt("eval_scenarios")
        for ci, c in enumerate(calls):
            m = models[mi]
            mi += 1
            cnt("calls")
            cnt("outcome_" + c["outcome"])
            corr, orc, st = compare_call(S, scn, ci, c, m)
            for k, v in st.items():
                cnt(k, v)
            res["corr"].extend(corr)
            res["orc"].extend(orc)
            if len(res["samples"]) < 2 and "__err__" not in m and m["randsets"]:
                res["samples"].append({"fields": [(f["name"], f["w"], f["s"], f["rand"]) for f in scn["fields"]],
                                       "hard": m["randsets"][0]["hard"][:3], "outcome": c["outcome"],
                                       "values": c["after"]})
            if "__err__" not in m and m["randsets"]:
                res["digests"].add(json.dumps([r["hard"] for r in m["randsets"]])[:2000])
    return res


def run(ck, prop, n, profile, jobs=None, extra=None):
    """generate and run n scenarios (or the given ones), merging the results into the Check"""
    jobs = jobs or min(16, max(1, n // 25))
    chunks = []
    if extra is not None:
        per = max(1, (len(extra) + jobs - 1) // jobs)
        for i in range(0, len(extra), per):
            chunks.append((prop, ck.seed, 0, 0, profile, extra[i:i + per]))
    else:
        per = (n + jobs - 1) // jobs
        for i in range(0, n, per):
            chunks.append((prop, ck.seed, i, min(n, i + per), profile, None))
    if not chunks:
        return set()
    if len(chunks) == 1:
        results = [_worker(chunks[0])]
    else:
        results = common.pmap(_worker, chunks)
    digests = set()
    for r in results:
        for k, v in r["counts"].items():
            ck.count(k, v)
        for f in r["corr"]:
            ck.corr_fail(f["what"], f["case"], f["model"], f["impl"])
        for f in r["orc"]:
            ck.oracle_fail(f["signature"], f["case"], f["observed"], f["required"])
        for s in r["samples"]:
            ck.sample(s)
        digests |= r["digests"]
    return digests


def search_failing_input(ck, prop, profile, max_cases=6, reseeds=120):
    """After a correspondence failure with no oracle failure: re-run the disagreeing scenarios under
    many random states (and the scenarios around them) looking for returned values that contradict
    the reference semantics."""
    known_sigs = {k["signature"] for k in ck.known if k.get("status") == "known"}
    if not ck.corr_failures or [f for f in ck.oracle_failures if f["signature"] not in known_sigs]:
        return 0
    cases = sorted(ck.corr_failures, key=lambda f: len(json.dumps(f["case"], default=str)))[:max_cases]
    extra = []
    rng = random.Random(ck.seed + 17)
    for f in cases:
        base = f["case"]
        if not isinstance(base, dict) or "calls" not in base:
            continue
        for _ in range(reseeds // 4):
            scn = json.loads(json.dumps(base))
            last = scn["calls"][-1]
            scn["calls"] = scn["calls"][:-1] + [dict(last, seed=rng.randrange(1 << 30)) for _ in range(4)]
            extra.append(scn)
    before = len(ck.corr_failures)
    run(ck, prop, 0, profile, extra=extra)
    del ck.corr_failures[before:]
    return len(extra)


# ----------------------------------------------------------------------------- known-finding witnesses

def fld(n, w, s=False, rand=True, val=0, enums=None):
    return {"name": n, "w": w, "s": s, "rand": rand, "val": val, "enums": enums}


def one_call(fields, stmts, inline=None, seed=1):
    return {"fields": fields, "blocks": [{"name": "c0", "stmts": stmts}], "calls": [{"inline": inline, "seed": seed}]}


WITNESSES = {
    # id: (property, scenario, predicate on (call observation, model answer) -> bool)
    "F17": ("C02", one_call([fld("a", 4)], [{"k": "expr", "e": B("eq", {"k": "lit", "v": 1, "s": False, "w": 32}, I(0))}]),
            lambda c, m: c["outcome"] == "ok" and bool(m.get("droppedFail"))),
    "F21": ("C14", one_call([fld("a", 4)], [{"k": "expr", "e": B("lt", F(0), I(-2))}]),
            lambda c, m: c["outcome"] == "ok" and any(r.get("starved") for r in m["randsets"])),
    "F33": ("C02", one_call([fld("a", 8), fld("c", 8, rand=False, val=0), fld("d", 8, rand=False, val=9)],
                            [{"k": "expr", "e": B("lt", F(0), B("div", F(2), F(1)))}]),
            lambda c, m: c["outcome"] == "exception" and "ZeroDivisionError" in (c["exc"] or "")),
}


def run_witnesses(ck, prop):
    import solvelib as S
    S.install()
    drv = Drv()
    for fid, (p, scn, pred) in WITNESSES.items():
        if p != prop:
            continue
        known = [k for k in ck.known if k["id"] == fid and k.get("status") == "known"]
        calls = scenario_requests(S, scn)
        ms = drv.batch([c["req"] for c in calls])
        hit = any(pred(c, m) for c, m in zip(calls, ms) if "__err__" not in m)
        ck.count("known_finding_witnesses")
        if hit and known:
            ck.oracle_fail(known[0]["signature"], scn, {"outcome": calls[0]["outcome"], "exc": calls[0]["exc"], "values": calls[0]["after"]},
                           known[0]["what"])
        elif hit:
            ck.oracle_fail(fid + ":witness-fails-but-not-listed", scn, calls[0]["outcome"], "listed in known_findings.json")


def shrink_failures(ck, prop, profile, budget=250):
    """shrink the smallest reported failure so the replay is readable"""
    import shrink as SH
    import solvelib as S
    S.install()
    drv = Drv()
    known_sigs = {k["signature"] for k in ck.known if k.get("status") == "known"}

    def observe(scn):
        calls = scenario_requests(S, scn)
        ms = drv.batch([c["req"] for c in calls])
        corr, orc = [], []
        for ci, (c, m) in enumerate(zip(calls, ms)):
            a, b, _ = compare_call(S, scn, ci, c, m)
            corr += a
            orc += b
        return corr, orc
    new_orc = [f for f in ck.oracle_failures if f["signature"] not in known_sigs and isinstance(f["case"], dict) and "calls" in f["case"]]
    if new_orc:
        by = {}
        for f in new_orc:
            if f["signature"] not in by or len(json.dumps(f["case"])) < len(json.dumps(by[f["signature"]]["case"])):
                by[f["signature"]] = f
        for sig, f in by.items():
            small = SH.shrink(f["case"], lambda s: any(o["signature"] == sig for o in observe(s)[1]), budget)
            _, orc = observe(small)
            o = [x for x in orc if x["signature"] == sig]
            if o:
                f["case"], f["observed"], f["required"] = small, o[0]["observed"], o[0]["required"]
                ck.oracle_failures[:] = [x for x in ck.oracle_failures if x["signature"] != sig] + [f]
    elif ck.corr_failures:
        f = min(ck.corr_failures, key=lambda x: len(json.dumps(x["case"], default=str)))
        if isinstance(f["case"], dict) and "calls" in f["case"]:
            what = f["what"].split("[")[0]
            small = SH.shrink(f["case"], lambda s: any(c["what"].split("[")[0] == what for c in observe(s)[0]), budget)
            corr, _ = observe(small)
            c = [x for x in corr if x["what"].split("[")[0] == what]
            if c:
                ck.corr_failures.insert(0, c[0])


def replay_file(ck, prop, path):
    import solvelib as S
    S.install()
    obj = json.load(open(path))
    case = obj.get("case") or (obj.get("first_disagreement") or {}).get("case")
    if not isinstance(case, dict) or "calls" not in case:
        raise common.InfraError("replay file holds no scenario")
    run(ck, prop, 0, {}, jobs=1, extra=[case])


def standard_main(prop, modules, theorems, profile, n_quick, n_thorough, assumptions, rule, extra=None, argv=None, bounds=False):
    OPTS["bounds"] = bounds
    OPTS["range_oracle"] = bounds and prop == "C14"       # soundness of the inferred ranges is C14's statement
    tier, seed, replay = common.parse_args(argv if argv is not None else sys.argv[1:])
    ck = common.Check(prop, tier, seed, modules)
    obligations = common.obligations_for(modules)
    common.setup_repo_path()
    if replay:
        replay_file(ck, prop, replay)
    else:
        run_witnesses(ck, prop)
        n = n_thorough if tier == "thorough" else n_quick
        digests = run(ck, prop, n, profile)
        if extra is not None:
            extra(ck, tier)
        ck.cov.update({"programs": ck.counts.get("eval_scenarios", 0), "distinct_nontrivial": len(digests), "rule": rule})
        searched = search_failing_input(ck, prop, profile)
        ck.cov["failing_input_search_scenarios"] = searched
        try:
            shrink_failures(ck, prop, profile)
        except Exception:
            pass
    ck.cov["evaluations"] = ck.counts.get("calls", 0) + ck.counts.get("kernel_evals", 0)
    rc = ck.finish(obligations=obligations, assumptions=assumptions, theorems_lost=theorems)
    sys.exit(rc)
