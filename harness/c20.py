"""C20 — solve_order decouples the earlier variable's distribution from the later one."""
import os
import random
import sys
sys.path.insert(0, os.path.dirname(os.path.abspath(__file__)))
import common
import solvecheck
from solvecheck import F, I, B

THEOREMS = ["Pyvsc.C20.every_field_in_a_group", "Pyvsc.C20.order_independent", "Pyvsc.C20.first_group_hits_target"]


class OGen(solvecheck.Gen):
    """scenarios with solve_order directives over small domains"""

    def scenario(self):
        scn = super().scenario()
        r = self.r
        fs = scn["fields"]
        rnd = [i for i, f in enumerate(fs) if f["rand"] and not f["enums"]]
        if len(rnd) >= 2:
            k = r.randint(1, 2)
            stmts = scn["blocks"][0]["stmts"]
            for _ in range(k):
                a, b = r.sample(rnd, 2)
                before, after = [a], [b]
                if len(rnd) >= 3 and r.random() < 0.3:
                    c = r.choice([x for x in rnd if x not in (a, b)])
                    (before if r.random() < 0.5 else after).append(c)
                # keep the directive graph acyclic: before < after by index order of first use
                if any(x in after for x in before):
                    continue
                stmts.append({"k": "solve_order", "before": before, "after": after})
                # tie the two together so that they share a rand set
                stmts.append({"k": "expr", "e": B(r.choice(["lt", "le", "ne"]), F(a), F(b))})
            # cycles make toposort raise: drop directives that would close one
            seen = []
            keep = []
            for s in stmts:
                if s["k"] != "solve_order":
                    keep.append(s)
                    continue
                edges = [(x, y) for x in s["before"] for y in s["after"]]
                if any((y, x) in seen or _reach(seen, y, x) for x, y in edges):
                    continue
                seen.extend(edges)
                keep.append(s)
            scn["blocks"][0]["stmts"] = keep
        return scn


def _reach(edges, a, b, depth=0):
    if depth > 6:
        return False
    return any(x == a and (y == b or _reach(edges, y, b, depth + 1)) for x, y in edges)


solvecheck.Gen = OGen

PROFILE = {"samesign": True, "relational": 0.4, "soft": 0.05, "big": 0.0, "maxstmts": 2, "calls": 2, "enum": 0.0}
RULE = ("as C14 with one or two solve_order directives per class (single fields, lists of fields, chains) over fields that share a "
        "rand set; compared per call: the ordered groups of every rand set, the swizzle candidates group by group in trial order, the "
        "draws; oracles of C01/C02 on every call (all constraints hold, SolveFailure iff unsatisfiable by enumeration)")

def list_orders(ck, tier):
    """solve_order between a scalar and a whole list (the list stands for its size field and its elements): ordered groups,
    candidates and draws of the list scenarios of C04, every one of them with such a directive; what concerns the exposed
    list itself is C04's"""
    import c04
    c04.ORDER_P[0] = 1.0
    n0 = len(ck.oracle_failures)
    saved = dict(solvecheck.OPTS)
    # the list scenarios are compared without inferred ranges and draws (C04's convention), but with the ordered groups
    solvecheck.OPTS.update({"bounds": False, "range_oracle": False, "order_groups": True})
    try:
        c04.run(ck, 1500 if tier == "thorough" else 60, 0.0)
    finally:
        solvecheck.OPTS.update(saved)
    own = ("list-constraint-violated", "list-access-paths", "edit-does-not", "fixed-size-list", "F70:", "list-size-exceeds")
    ck.oracle_failures[n0:] = [f for f in ck.oracle_failures[n0:] if not f["signature"].startswith(own)]


if __name__ == "__main__":
    common.run_main(lambda: solvecheck.standard_main(
        "C20", ["C20", "C20Order"], THEOREMS, PROFILE, 300, 12000,
        ["as C01/C14", "the distribution clause is carried by first_group_hits_target (a feasible drawn value of the first group is "
         "returned whatever the number of extensions) plus the assumed uniformity of randint; no frequency test is run"],
        RULE, extra=list_orders, bounds=True))
