"""C02 — SolveFailure is raised exactly when the hard constraints are unsatisfiable."""
import os
import sys
sys.path.insert(0, os.path.dirname(os.path.abspath(__file__)))
import common
import solvecheck

THEOREMS = ["Pyvsc.C02.hard_sat_iff", "Pyvsc.C02.fails_iff_unsat", "Pyvsc.C02.no_internal_error", "Pyvsc.C02.lowered_welltyped"]

PROFILE = {"big": 0.03, "soft": 0.08, "maxstmts": 5, "depth": 1, "arops": ["add", "sub", "and", "or", "xor", "mul", "srl", "mod"]}

RULE = ("as C01, biased to the SAT/UNSAT boundary: small fields only (every rand set enumerable), shallow expressions, up to 5 "
        "statements per block so that about half of the calls are unsatisfiable; satisfiability of every rand set is decided by "
        "exhaustive enumeration of the reference semantics in the Lean driver and compared with the outcome in both directions")

if __name__ == "__main__":
    common.run_main(lambda: solvecheck.standard_main(
        "C02", ["C02"], THEOREMS, PROFILE, 300, 12000,
        ["as C01; exhaustive satisfiability is computed for rand sets with at most 13 random bits (count in coverage.counts.enumerated)"],
        RULE))
