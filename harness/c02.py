"""C02 — SolveFailure is raised exactly when the hard constraints are unsatisfiable."""
import os
import sys
sys.path.insert(0, os.path.dirname(os.path.abspath(__file__)))
import common
import solvecheck

THEOREMS = ["Pyvsc.C02.hard_sat_iff", "Pyvsc.C02.fails_iff_unsat", "Pyvsc.C02.no_internal_error", "Pyvsc.C02.lowered_welltyped",
            "Pyvsc.C02.no_statement_dropped"]

PROFILE = {"big": 0.03, "soft": 0.08, "maxstmts": 5, "depth": 1, "arops": ["add", "sub", "and", "or", "xor", "mul", "srl", "mod"]}

RULE = ("as C01, biased to the SAT/UNSAT boundary: small fields only (every rand set enumerable), shallow expressions, up to 5 "
        "statements per block so that about half of the calls are unsatisfiable; satisfiability of every rand set is decided by "
        "exhaustive enumeration of the reference semantics in the Lean driver and compared with the outcome in both directions")

def bitselect_witness(ck):
    """F61: a bit select on a field reached through a list element is built as an array subscript; the satisfiable call
    raises AttributeError from inside the library"""
    import solvelib as S
    S.install()
    import vsc
    from vsc.model.solve_failure import SolveFailure

    @vsc.randobj
    class L:
        def __init__(self):
            self.a = vsc.rand_uint8_t()

    @vsc.randobj
    class T:
        def __init__(self):
            self.l = vsc.rand_list_t(L())
            self.l.append(L())
            self.l.append(L())
    case = {"class": "T: l = rand_list_t(L()) with 2 elements; L: a = rand_uint8_t",
            "call": "with t.randomize_with() as it: it.l[1].a[7] == 1"}
    ck.count("known_finding_witnesses")
    known = [k for k in ck.known if k["id"] == "F61" and k.get("status") == "known"]
    t = T()
    try:
        with common.quiet():
            with t.randomize_with() as it:
                it.l[1].a[7] == 1
        if (int(t.l[1].a) >> 7) & 1 != 1:
            ck.oracle_fail("hard-constraint-violated:bit-select-through-list-element", case, int(t.l[1].a), "bit 7 of l[1].a is 1")
    except SolveFailure:
        ck.oracle_fail("solvefailure-but-satisfiable:bit-select-through-list-element", case, "SolveFailure", "l[1].a = 128 satisfies the call")
    except AttributeError as e:
        if known and "field_l" in str(e):
            ck.oracle_fail(known[0]["signature"], case, "AttributeError: " + str(e), known[0]["what"])
        else:
            ck.oracle_fail("internal-exception:AttributeError:bit-select-through-list-element", case, str(e), "a normal return")
    except Exception as e:
        ck.oracle_fail("internal-exception:%s:bit-select-through-list-element" % type(e).__name__, case, str(e)[:200], "a normal return")


def list_witness(ck, tier):
    """F46: a satisfiable system over a random-size list fails (the size 0 solution is not found because the constraints
    are imposed on the elements the list is grown by)"""
    import solvelib as S
    S.install()
    import listlib as LL
    from solvecheck import B, I
    scn = {"fields": [{"name": "f0", "w": 2, "s": False, "rand": True, "val": 0, "enums": None}],
           "lists": [{"name": "l0", "w": 3, "s": False, "rand": True, "randsz": True, "init": []}],
           "blocks": [{"name": "c0", "stmts": [
               {"k": "expr", "e": {"k": "in", "e": {"k": "size", "l": 0}, "rl": [{"lo": I(0), "hi": I(2)}]}},
               {"k": "foreach", "l": 0, "it": True, "idx": False, "body": [{"k": "expr", "e": B("gt", {"k": "it"}, I(7))}]}]}],
           "ops": [{"op": "randomize", "seed": 3}]}
    recs = LL.run(scn)
    ck.count("known_finding_witnesses")
    known = [k for k in ck.known if k["id"] == "F46" and k.get("status") == "known"]
    if recs[0]["outcome"] == "solveFailure":
        # the empty list satisfies both statements
        if known:
            ck.oracle_fail(known[0]["signature"], scn, {"outcome": "solveFailure", "solution": {"l0": []}}, known[0]["what"])
        else:
            ck.oracle_fail("F46:witness-fails-but-not-listed", scn, "solveFailure", "listed in known_findings.json")
    elif recs[0]["outcome"] != "ok":
        ck.oracle_fail("internal-exception:" + str(recs[0]["exc"])[:80], scn, recs[0]["exc"], "SolveFailure or normal return")
    # list scenarios (fixed-size and non-random lists: foreach with folded index conditions, sum, unique, membership) judged
    # for this property: failure iff unsatisfiable, no other exception; what concerns the exposed list itself is C04's
    import c04
    n0 = len(ck.oracle_failures)
    c04.run(ck, 2000 if tier == "thorough" else 80, 0.0)
    own = ("list-constraint-violated", "list-access-paths", "edit-does-not", "fixed-size-list", "hard-constraint-violated")
    ck.oracle_failures[n0:] = [f for f in ck.oracle_failures[n0:] if not f["signature"].startswith(own)]


if __name__ == "__main__":
    common.run_main(lambda: solvecheck.standard_main(
        "C02", ["C02"], THEOREMS, PROFILE, 300, 12000,
        ["as C01; exhaustive satisfiability is computed for rand sets with at most 13 random bits (count in coverage.counts.enumerated)"],
        RULE, extra=lambda ck, tier: (bitselect_witness(ck), list_witness(ck, tier))))
