"""C07 — enforced blocks = most-derived, enabled, of this very instance (constraint_mode)."""
import os
import sys
sys.path.insert(0, os.path.dirname(os.path.abspath(__file__)))
import common
import worldcheck

THEOREMS = ["Pyvsc.C07.toggle_sets", "Pyvsc.C07.toggle_isolated", "Pyvsc.C07.flag_is_last", "Pyvsc.C07.active_iff",
            "Pyvsc.C07.mostDerived_is_last"]
RULE = ("as C03 with derived classes overriding block names in 80% of the trees, several instances of one class in one tree, and "
        "histories rich in constraint_mode toggles (on/off on top-level, nested and sibling instances) interleaved with calls; "
        "compared after every call: the enabled flag of every block of every instance, the blocks entering the call (their "
        "lowered formulas), rand sets, values")

def toggle_growth_histories(ck, tier, cases):
    """Blocks that range over a list (foreach, indexed references), switched off and on around calls while the user grows the
    list: on every call the blocks that are on (most-derived, of this instance) hold over the list as it is then, and the
    elements are free of the blocks that are off (checked by frequency over the calls of one history: an element that never
    leaves the off block's range in 12 draws of an 8-bit field is reported).  Top-level, nested and list-held instances."""
    if cases is not None:
        return
    import random
    import solvelib as S
    S.install()
    import vsc

    @vsc.randobj
    class Item:
        def __init__(self):
            self.l = vsc.rand_list_t(vsc.uint8_t(), sz=2)
            self.m = vsc.rand_list_t(vsc.uint8_t(), sz=2)
            self.w = vsc.rand_uint8_t()
            self.d = vsc.rand_uint8_t()

        @vsc.constraint
        def small_c(self):
            with vsc.foreach(self.l, idx=True) as i:
                self.l[i] < 10

        @vsc.constraint
        def big_c(self):
            with vsc.foreach(self.m) as e:
                e > 200

        @vsc.constraint
        def win_c(self):
            self.w in vsc.rangelist(vsc.rng(10, 20))

        @vsc.constraint
        def dst_c(self):
            vsc.dist(self.d, [vsc.weight((30, 33), 3), vsc.weight(40, 1)])

    @vsc.randobj
    class Derived(Item):
        def __init__(self):
            super().__init__()

        @vsc.constraint
        def small_c(self):
            with vsc.foreach(self.l, idx=True) as i:
                self.l[i] < 5

    @vsc.randobj
    class Holder:
        def __init__(self):
            self.sub = vsc.rand_attr(Item())
            self.arr = vsc.rand_list_t(Item())
            for _ in range(2):
                self.arr.append(Derived())
    rng = random.Random("C07/toggle-growth/%d" % ck.seed)
    n_hist = 80 if tier == "thorough" else 14
    for h in range(n_hist):
        top = rng.choice(["item", "derived", "holder"])
        root = {"item": Item, "derived": Derived, "holder": Holder}[top]()
        insts = {"item": [((), root, 10)], "derived": [((), root, 5)]}.get(top) or \
            [(("sub",), root.sub, 10), (("arr", 0), root.arr[0], 5), (("arr", 1), root.arr[1], 5)]
        state = {k: {"small_c": True, "big_c": True, "win_c": True, "dst_c": True} for k in range(len(insts))}
        ops = []
        free_seen = {}
        for step in range(rng.randint(10, 22)):
            x = rng.random()
            k = rng.randrange(len(insts))
            path, o, lim = insts[k]
            if x < 0.35:
                bn = rng.choice(["small_c", "big_c", "win_c", "dst_c"])
                v = not state[k][bn] if rng.random() < 0.8 else state[k][bn]
                ops.append(["constraint_mode", list(path), bn, v])
                getattr(o, bn).constraint_mode(v)
                state[k][bn] = v
            elif x < 0.55:
                which = rng.choice(["l", "m"])
                n = rng.randint(1, 4)
                ops.append(["grow", list(path), which, n])
                for _ in range(n):
                    getattr(o, which).append(0)
            else:
                sd = rng.randrange(1 << 30)
                ops.append(["randomize", sd])
                root.set_randstate(vsc.RandState.mkFromSeed(sd))
                ck.count("eval_toggle_growth_calls")
                try:
                    with common.quiet():
                        root.randomize()
                except Exception as e:
                    ck.oracle_fail("toggle-growth-call-raised:%s" % type(e).__name__, {"top": top, "ops": ops}, str(e)[:200],
                                   "every combination of these blocks is satisfiable")
                    break
                bad = None
                for kk, (pth, oo, lm) in enumerate(insts):
                    lv, mv = [int(v) for v in oo.l], [int(v) for v in oo.m]
                    if state[kk]["small_c"] and any(v >= lm for v in lv):
                        bad = ("enabled-block-not-enforced-over-whole-list", pth, "small_c", lv, "every element < %d" % lm)
                    if state[kk]["big_c"] and any(v <= 200 for v in mv):
                        bad = ("enabled-block-not-enforced-over-whole-list", pth, "big_c", mv, "every element > 200")
                    if not state[kk]["small_c"]:
                        fs = free_seen.setdefault((kk, "small_c"), [0, 0])
                        fs[0] += 1
                        fs[1] += any(v >= 10 for v in lv)
                    if not state[kk]["big_c"]:
                        fs = free_seen.setdefault((kk, "big_c"), [0, 0])
                        fs[0] += 1
                        fs[1] += any(v <= 200 for v in mv)
                    wv, dv = int(oo.w), int(oo.d)
                    if state[kk]["win_c"] and not 10 <= wv <= 20:
                        bad = ("enabled-block-not-enforced", pth, "win_c", wv, "w in [10..20]")
                    if state[kk]["dst_c"] and dv not in (30, 31, 32, 33, 40):
                        bad = ("enabled-block-not-enforced", pth, "dst_c", dv, "d in the dist's entries")
                    if not state[kk]["win_c"]:
                        fs = free_seen.setdefault((kk, "win_c"), [0, 0])
                        fs[0] += 1
                        fs[1] += not 10 <= wv <= 20
                    if not state[kk]["dst_c"]:
                        fs = free_seen.setdefault((kk, "dst_c"), [0, 0])
                        fs[0] += 1
                        fs[1] += dv not in (30, 31, 32, 33, 40)
                if bad:
                    ck.oracle_fail(bad[0] + ":" + bad[2], {"top": top, "ops": ops, "instance": list(bad[1])}, bad[3], bad[4])
                    break
        for (kk, bn), (n, out) in free_seen.items():
            # P(a free 8-bit field stays inside a window of 11 (5) values in all of 5 calls) < 2e-7 per instance and block; lists: >= 2 elements each
            if n >= 5 and out == 0:
                ck.oracle_fail("disabled-block-still-enforced:" + bn, {"top": top, "ops": ops, "instance": list(insts[kk][0])},
                               {"calls_with_block_off": n, "calls_leaving_its_range": 0}, "a block that is off constrains nothing")
    ck.sample({"kind": "toggle/growth histories", "histories": n_hist})


if __name__ == "__main__":
    common.run_main(lambda: worldcheck.standard_main(
        "C07", ["C07", "C16Rollback"], THEOREMS, {"nops": 10, "derive": 0.8, "deep": 0.5, "new": 0.2}, 150, 6000,
        ["as C01 for the solve itself", "instances held in lists are not generated in this revision (C04 is not claimed)"],
        RULE, keep=lambda w: not w.startswith("callbacks"), extra_run=toggle_growth_histories))
