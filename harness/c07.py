"""C07 — enforced blocks = most-derived, enabled, of this very instance (constraint_mode)."""
import os
import sys
sys.path.insert(0, os.path.dirname(os.path.abspath(__file__)))
import common
import worldcheck

THEOREMS = ["Pyvsc.C07.toggle_sets", "Pyvsc.C07.toggle_isolated", "Pyvsc.C07.flag_is_last", "Pyvsc.C07.active_iff",
            "Pyvsc.C07.mostDerived_is_last"]
RULE = ("as C03 with derived classes overriding block names in 80% of the trees, several instances of one class in one tree, and "
        "histories rich in constraint_mode toggles (on/off on top-level, nested and sibling instances) interleaved with calls; "
        "compared after every call: the enabled flag of every block of every instance, the blocks entering the call (their "
        "lowered formulas), rand sets, values")

if __name__ == "__main__":
    common.run_main(lambda: worldcheck.standard_main(
        "C07", ["C07"], THEOREMS, {"nops": 10, "derive": 0.8, "deep": 0.5, "new": 0.2}, 150, 6000,
        ["as C01 for the solve itself", "instances held in lists are not generated in this revision (C04 is not claimed)"],
        RULE, keep=lambda w: not w.startswith("callbacks")))
