"""C11 — cross bins count joint hits of their coverpoints."""
import os
import sys
sys.path.insert(0, os.path.dirname(os.path.abspath(__file__)))
import common
import cglib
from common import Check, Drv

THEOREMS = ["Pyvsc.C11.flatIdx_lt", "Pyvsc.C11.keyOf_flatIdx", "Pyvsc.C11.cross_sample_spec", "Pyvsc.C11.cross_counts"]


def spec_cross_check(ck, scn, impl, sb):
    """The property text, applied to the implementation's per-sample cross increments."""
    insts = []
    for k, (o, a) in enumerate(zip(scn["ops"], impl)):
        if o["op"] == "new":
            insts.append(o["shape"])
        elif o["op"] == "sample" and isinstance(a, dict):
            sh = insts[o["inst"]]
            for j, x in enumerate(sh["crosses"]):
                delta = a["xdelta"][j]
                dims = [len(sb[id(sh["cps"][i])]) for i in x["cps"]]
                cands = []
                ok_iff = o["xiff"][j]
                for i in x["cps"]:
                    iff, v = o["inp"][i]
                    if not iff:
                        ok_iff = False
                    cands.append([bi for bi, vals in enumerate(sb[id(sh["cps"][i])]) if v in vals])
                case = {"ops": scn["ops"][:k + 1], "cross": x["name"]}
                if not ok_iff or any(len(c) == 0 for c in cands):
                    if delta:
                        ck.oracle_fail("cross:increment-when-gated-or-missed", case, delta, [])
                    ck.count("cross_samples_no_hit")
                    continue
                if len(delta) != 1:
                    ck.oracle_fail("cross:not-exactly-one-increment", case, delta, "exactly one cross bin")
                    continue
                idx = delta[0]
                key = []
                for d in reversed(dims):
                    key.append(idx % d)
                    idx //= d
                key.reverse()
                if any(kc not in c for kc, c in zip(key, cands)):
                    ck.oracle_fail("cross:wrong-bin", case, {"incremented": delta[0], "key": key}, {"candidates": cands})
                ck.count("cross_samples_hit")
                if all(len(c) == 1 for c in cands):
                    ck.count("cross_samples_hit_unambiguous")
        elif o["op"] == "state" and isinstance(a, dict):
            # the cross bins of the type covergroup count the joint hits of all instances of the type
            for ti, t in enumerate(a.get("types", [])):
                members = [i for i, it in enumerate(a["insts"]) if it.get("tidx") == ti]
                for xi, cr in enumerate(t["st"]["cross"]):
                    try:
                        want = [sum(a["insts"][i]["st"]["cross"][xi]["hits"][b] for i in members) for b in range(len(cr["hits"]))]
                    except (IndexError, KeyError):
                        continue
                    if cr["hits"] != want:
                        ck.oracle_fail("cross:type-level-count-is-not-the-sum-of-its-instances", {"ops": scn["ops"][:k + 1], "type": ti, "cross": xi},
                                       cr["hits"], want)
            # layout: n_bins = product, names <a,b> row-major
            for it, sh in zip(a["insts"], insts):
                for cr, x in zip(it["st"]["cross"], sh["crosses"]):
                    dims = [len(sb[id(sh["cps"][i])]) for i in x["cps"]]
                    n = 1
                    for d in dims:
                        n *= d
                    cpn = [it["st"]["cp"][i]["names"] for i in x["cps"]]
                    want = []
                    def rec(pre, lvl):
                        if lvl == len(dims):
                            want.append("<" + ",".join(pre) + ">")
                            return
                        for b in range(dims[lvl]):
                            rec(pre + [cpn[lvl][b]], lvl + 1)
                    rec([], 0)
                    if len(cr["hits"]) != n or cr["names"] != want:
                        ck.oracle_fail("cross:layout", {"ops": scn["ops"][:k + 1], "cross": x["name"]},
                                       {"n": len(cr["hits"]), "names": cr["names"][:8]}, {"n": n, "names": want[:8]})


def main():
    tier, seed, replay = common.parse_args(sys.argv[1:])
    ck = Check("C11", tier, seed, ["C11"])
    try:
        obligations = common.obligations_for(["C11"])
        vsc = common.setup_repo_path()
        drv = Drv()
        n = 4000 if tier == "thorough" else 150
        scns, sb, dropped = cglib.gen_valid_scenarios(ck.rng, drv, n, cross_prob=1.0, opts=True)
        scns = [s for s in scns]
        models = drv.batch([cglib.model_request(s) for s in scns])
        distinct = set()
        ncross = 0
        for scn, model in zip(scns, models):
            impl = cglib.run_impl(vsc, scn)
            ck.count("eval_scenarios")
            ck.count("ops", len(scn["ops"]))
            has_x = any(o["op"] == "new" and o["shape"]["crosses"] for o in scn["ops"])
            if has_x:
                ncross += 1
                distinct.add(str([(o["shape"]["crosses"], [c["bins"] for c in o["shape"]["cps"]]) for o in scn["ops"] if o["op"] == "new"]))
            if cglib.compare_model(ck, scn, impl, model, "C11", fields=("new", "state")):
                pass
            if not (impl and isinstance(impl[-1], dict) and "exc" in impl[-1] and "tb" in impl[-1]):
                common.guarded(ck, "C11-oracle", {"ops": scn["ops"]}, spec_cross_check, ck, scn, impl, sb)
        ck.sample({"scenario_ops": scns[0]["ops"][:4], "n_ops": len(scns[0]["ops"])})
        ck.cov.update({"distinct_nontrivial": len(distinct), "programs": len(scns),
                       "rule": "generated covergroup scenarios (1-2 covergroup classes, 1-2 parameterised shapes each, 1-3 coverpoints of every bin kind, crosses of 2-3 coverpoints, iff on crosses and coverpoints, 6-30 ops: instance creation / sample / state read); non-trivial = contains at least one cross; distinct by (cross definitions, bin specifications)",
                       "scenarios_with_cross": ncross, "zero_bin_scenarios_dropped": dropped})
        rc = ck.finish(obligations=obligations,
                       assumptions=["for samples whose value lies in several bins of one crossed coverpoint the Spec accepts any of those bins (the property defines 'the bin a coverpoint hit' only for disjoint bins)",
                                    "coverpoints with zero bins are excluded (known finding F20, see C12)"],
                       theorems_lost=THEOREMS)
        sys.exit(rc)
    except common.InfraError as e:
        print("INFRA-ERROR: " + str(e))
        sys.exit(common.EXIT_INFRA)


if __name__ == "__main__":
    common.run_main(main)
