"""C04 — list constraints hold on exactly the list the user sees."""
import json
import multiprocessing
import os
import random
import sys

sys.path.insert(0, os.path.dirname(os.path.abspath(__file__)))
import common
import solvecheck
from common import Drv
from solvecheck import F, I, B

THEOREMS = ["Pyvsc.C04.scope_holds", "Pyvsc.C04.unroll_holds", "Pyvsc.C04.sum_value", "Pyvsc.C04.sum_no_overflow",
            "Pyvsc.C04.sum_reads_true_sum", "Pyvsc.C04.exposed_length", "Pyvsc.C04.exposed_get",
            "Pyvsc.C04.inList_truthy", "Pyvsc.C04.unique_list"]


def E(l, idx):
    return {"k": "elem", "l": l, "idx": idx}


class LGen(solvecheck.Gen):
    def lists(self, randsz_p):
        r = self.r
        out = []
        for i in range(r.choice([1, 1, 2])):
            w = r.choice([2, 3, 3, 4])
            s = r.random() < 0.25
            kind = r.random()
            randsz = kind < randsz_p
            rand = randsz or kind < 0.8
            n = 0 if randsz else r.choice([0, 1, 2, 3, 3, 4, 5, 6])
            lo, hi = (-(1 << (w - 1)), (1 << (w - 1)) - 1) if s else (0, (1 << w) - 1)
            out.append({"name": "l%d" % i, "w": w, "s": s, "rand": rand, "randsz": randsz,
                        "init": [r.randint(lo, hi) for _ in range(n)]})
        return out

    def elem_cmp(self, fs, ls, li, x, use_idx=True):
        """a comparison about element-term x of list li"""
        r = self.r
        c = r.random()
        if c < 0.45 or (not use_idx and not fs):
            return B(r.choice(solvecheck.CMP), x, I(r.randint(0, (1 << ls[li]["w"]) - 1)))
        if (c < 0.7 or not use_idx) and fs:
            return B(r.choice(solvecheck.CMP), x, F(r.randrange(len(fs))))
        return B(r.choice(["lt", "le", "ne", "eq"]), x, B("add", {"k": "idx"}, I(r.randint(0, 2))))

    def foreach(self, fs, ls, li):
        r = self.r
        use_it = r.random() < 0.7
        use_idx = (not use_it) or r.random() < 0.6
        x = {"k": "it"} if use_it else E(li, {"k": "idx"})
        body = []
        for _ in range(r.randint(1, 2)):
            c = r.random()
            if r.random() < 0.12:
                # a preference over every element: copied per iteration as a soft constraint, dropped where it conflicts
                body.append({"k": "soft", "e": self.elem_cmp(fs, ls, li, x, use_idx)})
            elif c < 0.4 or not use_idx:
                body.append({"k": "expr", "e": self.elem_cmp(fs, ls, li, x, use_idx)})
            elif c < 0.6:
                # a condition over the index and constants (a literal, a non-random field): folded per iteration when
                # the foreach is expanded, with every comparison operator, an else-if and an else branch
                nr = [i for i, f in enumerate(fs) if not f["rand"] and not f["enums"]]

                # non-random fixed lists at least as long as this one: their elements can be read at the index
                cfgs = [j for j, l2 in enumerate(ls) if j != li and not l2["rand"] and not l2["randsz"]
                        and not ls[li]["randsz"] and len(l2["init"]) >= len(ls[li]["init"])]

                def cond():
                    if cfgs and r.random() < 0.4:
                        # the element of a non-random list at the current index decides the branch
                        return B(r.choice(["eq", "ne", "ge", "lt"]), E(r.choice(cfgs), {"k": "idx"}), I(r.randint(0, 3)))
                    rhs = F(r.choice(nr)) if nr and r.random() < 0.4 else I(r.randint(0, 3))
                    lhs = {"k": "idx"} if r.random() < 0.8 else B("add", {"k": "idx"}, I(1))
                    return B(r.choice(["ge", "le", "gt", "lt", "eq", "ne"]), lhs, rhs)
                body.append({"k": "if", "c": cond(),
                             "t": [{"k": "expr", "e": self.elem_cmp(fs, ls, li, x, use_idx)}],
                             "elifs": [{"c": cond(), "t": [{"k": "expr", "e": self.elem_cmp(fs, ls, li, x, use_idx)}]}] if r.random() < 0.3 else [],
                             "else": [{"k": "expr", "e": self.elem_cmp(fs, ls, li, x, use_idx)}] if r.random() < 0.5 else None})
            elif c < 0.85 or ls[li]["randsz"]:
                # neighbour relation under a guard on the index (index arithmetic); (for a random-size list the
                # guard 'i < size-1' cannot be folded and the expansion raises IndexError: known finding F47)
                body.append({"k": "if", "c": B("gt", {"k": "idx"}, I(0)),
                             "t": [{"k": "expr", "e": B(r.choice(["gt", "ge", "ne"]), E(li, {"k": "idx"}), E(li, B("sub", {"k": "idx"}, I(1))))}],
                             "elifs": [], "else": None})
            else:
                body.append({"k": "if", "c": B("lt", {"k": "idx"}, B("sub", {"k": "size", "l": li}, I(1))),
                             "t": [{"k": "expr", "e": B(r.choice(["lt", "le", "ne"]), E(li, {"k": "idx"}), E(li, B("add", {"k": "idx"}, I(1))))}],
                             "elifs": [], "else": [{"k": "expr", "e": self.elem_cmp(fs, ls, li, x, use_idx)}] if r.random() < 0.4 else None})
        return {"k": "foreach", "l": li, "it": use_it, "idx": use_idx, "body": body}

    def list_stmt(self, fs, ls):
        r = self.r
        li = r.randrange(len(ls))
        l = ls[li]
        c = r.random()
        n = len(l["init"])
        if c < 0.4:
            return self.foreach(fs, ls, li)
        if c < 0.55:
            # the comparand decides the width the sum is computed at: a 32-bit literal hides a sum term that is too
            # narrow, a narrow field or sized literal does not
            d = r.random()
            if d < 0.4 and fs:
                rhs = F(r.randrange(len(fs)))
            elif d < 0.6:
                wl = r.randint(2, 6)
                rhs = {"k": "lit", "v": r.randint(0, (1 << wl) - 1), "s": False, "w": wl}
            else:
                rhs = I(r.randint(0, 3 * max(1, n)))
            return {"k": "expr", "e": B(r.choice(["eq", "le", "lt", "ge", "gt"]), {"k": "sum", "l": li}, rhs)}
        if c < 0.6:
            # product: 64 bits wide whatever the elements
            return {"k": "expr", "e": B(r.choice(["eq", "le", "ge", "ne"]), {"k": "product", "l": li}, I(r.randint(0, 12)))}
        if c < 0.64 and len(ls) >= 2:
            # unique_vec over two lists (equal lengths are the legal use; unequal ones must be rejected by both sides)
            return {"k": "unique_vec", "ls": [0, 1]}
        if c < 0.7:
            es = [{"k": "lref", "l": li}]
            if fs and r.random() < 0.4:
                es.insert(0, F(r.randrange(len(fs))))
            return {"k": "unique", "es": es}
        if c < 0.82 and fs:
            return {"k": "expr", "e": {"k": r.choice(["inl", "inl", "notinl"]), "e": F(r.randrange(len(fs))), "l": li}}
        if c < 0.9 and n >= 2 and not l["randsz"]:
            a, b = r.sample(range(n), 2)
            return {"k": "expr", "e": B(r.choice(solvecheck.CMP), E(li, I(a)), E(li, I(b)))}
        return {"k": "expr", "e": B(r.choice(["le", "ge", "eq"]), {"k": "size", "l": li}, I(r.randint(0, 5)))}

    def size_constraint(self, li):
        r = self.r
        c = r.random()
        if c < 0.4:
            a = r.randint(0, 3)
            return {"k": "expr", "e": {"k": "in", "e": {"k": "size", "l": li}, "rl": [{"lo": I(a), "hi": I(a + r.randint(0, 3))}]}}
        if c < 0.8:
            return {"k": "expr", "e": B(r.choice(["lt", "le"]), {"k": "size", "l": li}, I(r.randint(1, 5)))}
        return {"k": "expr", "e": B("eq", {"k": "size", "l": li}, I(r.randint(0, 4)))}

    def lscenario(self, randsz_p):
        r = self.r
        fs = self.fields()[: r.choice([1, 2, 2, 3])]
        for f in fs:
            if f["w"] > 4 and not f["enums"]:
                f["w"] = 4
                f["val"] = max(min(f["val"], 7), -8 if f["s"] else 0)
        ls = self.lists(randsz_p)
        if len(ls) >= 2 and not ls[0]["randsz"] and not ls[1]["randsz"] and r.random() < 0.7:
            # equal lengths (the legal use of unique_vec)
            n = len(ls[0]["init"])
            lo, hi = (-(1 << (ls[1]["w"] - 1)), (1 << (ls[1]["w"] - 1)) - 1) if ls[1]["s"] else (0, (1 << ls[1]["w"]) - 1)
            ls[1]["init"] = [r.randint(lo, hi) for _ in range(n)]
        stmts = []
        for _ in range(r.randint(1, 3)):
            stmts.append(self.list_stmt(fs, ls) if r.random() < 0.8 else self.stmt(fs, 1))
        for li, l in enumerate(ls):
            if l["randsz"]:
                # mostly first (the size is then solved before the elements), sometimes later in the block
                # the size bounded by, or tied to, a small random field (with only a loose literal bound next to it): the list
                # has to be grown to what that field allows
                ru = [i for i, f in enumerate(fs) if f["rand"] and not f["s"] and not f.get("enums") and 2 <= f["w"] <= 3]
                # (not next to a sum / product: the region of F70, exercised by its witness)
                if ru and r.random() < 0.35 and '"sum"' not in json.dumps(stmts) and '"product"' not in json.dumps(stmts):
                    stmts.insert(0, {"k": "expr", "e": B("le", {"k": "size", "l": li}, I(r.randint(6, 8)))})
                    stmts.insert(1, {"k": "expr", "e": B(r.choice(["le", "le", "eq", "lt"]), {"k": "size", "l": li}, F(r.choice(ru)))})
                else:
                    stmts.insert(0 if r.random() < 0.75 else r.randint(0, len(stmts)), self.size_constraint(li))
        # an ordering directive between a scalar and a whole list (the list stands for its size and its elements)
        rf = [i for i, f in enumerate(fs) if f["rand"] and not f.get("enums")]
        fl = [li for li, l in enumerate(ls) if l["rand"] and not l["randsz"]]
        if rf and fl and r.random() < ORDER_P[0]:
            a, b = {"fld": r.choice(rf)}, {"list": r.choice(fl)}
            if r.random() < 0.3:
                a, b = b, a
            stmts.append({"k": "solve_order", "before": a, "after": b})
        ops = [{"op": "randomize", "seed": r.randrange(1 << 30)}]
        for _ in range(r.randint(0, 4)):
            c = r.random()
            li = r.randrange(len(ls))
            l = ls[li]
            lo, hi = (-(1 << (l["w"] - 1)), (1 << (l["w"] - 1)) - 1) if l["s"] else (0, (1 << l["w"]) - 1)
            if c < 0.3:
                ops.append({"op": "append", "l": li, "v": r.randint(lo - 3, hi + 3)})
            elif c < 0.4:
                ops.append({"op": "clear", "l": li})
            elif c < 0.5:
                ops.append({"op": "setitem", "l": li, "i": r.randint(0, 3), "v": r.randint(lo, hi)})
            elif c < 0.55:
                ops.append({"op": "extend", "l": li, "vs": [r.randint(lo, hi) for _ in range(r.randint(1, 2))]})
            else:
                ops.append({"op": "randomize", "seed": r.randrange(1 << 30)})
        ops.append({"op": "randomize", "seed": r.randrange(1 << 30)})
        return {"fields": fs, "lists": ls, "blocks": [{"name": "c0", "stmts": stmts}], "ops": ops}


def requests_for(LL, S, scn, recs):
    """per randomize op: the l.call request and the l.spec request"""
    out = []
    names = scn["_names"]
    for k, rec in enumerate(recs):
        if rec["op"]["op"] != "randomize":
            continue
        all_tops = [s for b in sorted(scn["blocks"], key=lambda b: b["name"]) for s in b["stmts"]]
        tops = [s for s in all_tops if s["k"] != "solve_order"]
        fields = [dict(f, val=rec["before_s"][i], declRand=bool(f["rand"] and not f.get("attr"))) for i, f in enumerate(scn["fields"])]
        lists = [{"name": l["name"], "w": l["w"], "s": l["s"], "rand": l["rand"], "randsz": l["randsz"],
                  "vals": rec["before_l"][li]["vals"], "size": rec["before_l"][li]["size"]} for li, l in enumerate(scn["lists"])]
        # variable names -> index in the model's field order (scalars, then per list: size, elements)
        pidx = {n: i for i, n in enumerate(names)}
        off = len(names)
        # the model's field order: scalars; per list its size field and the elements it has before the call; then, per
        # list, the elements it is grown by for the solve
        n_els, pos = [], []
        for li, l in enumerate(scn["lists"]):
            pidx[l["name"] + ".size"] = off
            n0 = len(rec["before_l"][li]["vals"])
            n_els.append(max(rec["grown"][li], len(rec["after_l"][li]["vals"]), n0))
            pos.append([off + 1 + e for e in range(n0)])
            off += 1 + n0
        for li, l in enumerate(scn["lists"]):
            for e in range(len(pos[li]), n_els[li]):
                pos[li].append(off)
                off += 1
            for e, p_ in enumerate(pos[li]):
                pidx["%s.%s[%d]" % (l["name"], l["name"], e)] = p_
        total = off
        rsets, btors = rec["rsets"], rec["btors"]
        obs, rr = [], []
        for kk, rs in enumerate(rsets):
            r = S.parse_btor(btors[kk], rs["n_soft"]) if kk < len(btors) else None
            obs.append({"rs": rs, "rec": r})
            if r is None:
                rr.append({"groups": [], "answers": []})
            else:
                rr.append({"groups": [[S.tree_json(c, pidx) for c in g if _vars_known(c, pidx)] for g in r["groups"]],
                           "answers": [a if a == "unsat" else {"sat": [[pidx[x], v] for x, v in a["sat"].items() if x in pidx]} for a in r["answers"]]})
        after_flat = [0] * total
        after_flat[:len(names)] = rec["after_s"]
        holes = []
        for li, l in enumerate(scn["lists"]):
            after_flat[pidx[l["name"] + ".size"]] = rec["after_l"][li]["size"]
            vs = rec["after_l"][li]["vals"]
            for e, p_ in enumerate(pos[li]):
                if e < len(vs):
                    after_flat[p_] = vs[e]
                else:
                    holes.append(p_)       # grown for the solve, gone afterwards
        holes.sort()
        def ids(x):
            if "fld" in x:
                return [x["fld"]]
            return [pidx[scn["lists"][x["list"]]["name"] + ".size"]] + list(pos[x["list"]])
        order = [[b, a] for s in all_tops if s["k"] == "solve_order" for b in ids(s["before"]) for a in ids(s["after"])]
        req = {"op": "l.call", "fields": fields, "lists": lists, "tops": tops, "rec": rr, "enumLimit": 13, "order": order,
               "implFinal": after_flat if rec["outcome"] == "ok" else None, "implHoles": holes}
        spec = {"op": "l.spec", "fields": [dict(f, val=rec["after_s"][i]) for i, f in enumerate(scn["fields"])],
                "lists": [{"name": l["name"], "w": l["w"], "s": l["s"], "rand": l["rand"], "vals": rec["exposed"][li]["iter"] if isinstance(rec["exposed"][li]["iter"], list) else []}
                          for li, l in enumerate(scn["lists"])], "tops": tops}
        out.append({"k": k, "req": req, "spec": spec, "obs": obs, "after_flat": after_flat, "holes": holes, "n_els": n_els})
    return out


def _vars_known(t, pidx):
    if not isinstance(t, list):
        return True
    if t[0] == "var":
        return t[1] in pidx
    return all(_vars_known(x, pidx) for x in t[1:])


ORDER_P = [0.15]     # share of scenarios with a solve_order between a scalar and a whole list (C20 raises it)


def _worker(args):
    seed, lo, hi, randsz_p, extra = args
    import solvelib as S
    S.install()
    import listlib as LL
    drv = Drv()
    res = {"counts": {}, "corr": [], "orc": [], "samples": []}

    def cnt(k, n=1):
        res["counts"][k] = res["counts"].get(k, 0) + n
    scns = extra if extra is not None else [LGen(random.Random("C04/%d/%d" % (seed, i)), {"big": 0.0, "soft": 0.03, "enum": 0.0, "maxstmts": 2}).lscenario(randsz_p)
                                            for i in range(lo, hi)]
    for scn in scns:
        case = {k: v for k, v in scn.items() if not k.startswith("_")}
        common.note_inflight(case)
        try:
            recs = LL.run(scn)
        except S.SolverBudget:
            cnt("abandoned_solver_budget")
            continue
        except Exception as e:
            import traceback
            res["orc"].append({"signature": "construction-exception:" + type(e).__name__, "case": case,
                               "observed": traceback.format_exc()[-600:], "required": "the scenario constructs"})
            continue
        cnt("eval_scenarios")
        # ---- exposure paths after every op: len, size, indexing and iteration agree (the property's own words)
        for k, rec in enumerate(recs):
            for li, x in enumerate(rec["exposed"]):
                cnt("exposure_reads")
                if isinstance(x["iter"], str):
                    # a list of random size that the call did not grow to the size it then solved.  Known where the size is
                    # tied to a random field whose range depends on the sum / product of a random-size list (F70: the ranges
                    # are inferred before any list is grown, over the empty sum); anything else is reported as it is
                    js = json.dumps(scn["blocks"])
                    f70 = scn["lists"][li]["randsz"] and any(l2["randsz"] for l2 in scn["lists"]) and \
                        ('"k": "sum"' in js or '"k": "product"' in js) and _size_vs_field(scn, li)
                    res["orc"].append({"signature": "F70:randsz-list-not-grown-to-solved-size:range-through-sum-of-randsz-list" if f70
                                       else "list-size-exceeds-elements", "case": dict(case, ops=scn["ops"][:k + 1]),
                                       "observed": dict(x, list=scn["lists"][li]["name"]),
                                       "required": "len(), size, indexing and iteration agree"})
                    continue
                if not (x["len"] == x["size"] == len(x["iter"]) and x["index"] == x["iter"]):
                    res["orc"].append({"signature": "list-access-paths-disagree", "case": dict(case, ops=scn["ops"][:k + 1]),
                                       "observed": dict(x, list=scn["lists"][li]["name"]),
                                       "required": "len(), size, indexing and iteration agree"})
            # edits act on the exposed list
            if k > 0 and rec["op"]["op"] in ("append", "extend", "clear", "setitem"):
                li = rec["op"]["l"]
                prev = recs[k - 1]["exposed"][li]["iter"]
                l = scn["lists"][li]
                w, sg = l["w"], l["s"]

                def wrap(v):
                    v &= (1 << w) - 1
                    return v - (1 << w) if sg and v >= (1 << (w - 1)) else v
                o = rec["op"]
                if o["op"] == "append":
                    want = prev + [wrap(o["v"])]
                elif o["op"] == "extend":
                    want = prev + [wrap(v) for v in o["vs"]]
                elif o["op"] == "clear":
                    want = []
                else:
                    want = list(prev)
                    if o["i"] < len(want):
                        want[o["i"]] = wrap(o["v"])
                cnt("edits")
                if rec["exposed"][li]["iter"] != want:
                    res["orc"].append({"signature": "edit-does-not-act-on-exposed-list:" + o["op"] + (":randsz" if l["randsz"] else ""),
                                       "case": dict(case, ops=scn["ops"][:k + 1]),
                                       "observed": rec["exposed"][li]["iter"], "required": want})
        # ---- calls
        rq = requests_for(LL, S, scn, recs)
        models = drv.batch([x["req"] for x in rq] + [x["spec"] for x in rq])
        for j, x in enumerate(rq):
            rec = recs[x["k"]]
            m, sp = models[j], models[len(rq) + j]
            cnt("calls")
            cnt("outcome_" + rec["outcome"])
            ccase = dict(case, ops=scn["ops"][:x["k"] + 1])
            if "__err__" in m:
                # the model could not elaborate (e.g. an element index outside the list): the implementation must fail too
                if rec["outcome"] == "ok":
                    res["corr"].append({"what": "list-model-error", "case": ccase, "model": m["__err__"], "impl": rec["outcome"]})
                cnt("model_elaboration_errors")
                if rec["outcome"] == "exception":
                    sig = exc_signature(scn, rec)
                    # a statement that indexes past the end of its list is rejected by both (IndexError): the program's error
                    both_reject = (m["__err__"] == "IndexError" and sig.startswith("internal-exception:IndexError") and not sig.endswith(":F47")) \
                        or (m["__err__"] == "unique_vec: sizes differ" and "must be of the same size" in (rec["exc"] or ""))
                    if not both_reject:
                        res["orc"].append({"signature": sig, "case": ccase, "observed": rec["exc"],
                                           "required": "SolveFailure or normal return"})
                    else:
                        cnt("program_rejected_by_both")
                    break       # an exception from inside the library leaves the object in no defined state
                continue
            names = m["names"]
            # element-field counts (growth of random-size lists)
            for li, l in enumerate(scn["lists"]):
                if m["lists"][li]["nelems"] != x["n_els"][li]:
                    res["corr"].append({"what": "list.field_l-length-during-solve", "case": ccase, "model": m["lists"][li]["nelems"],
                                        "impl": x["n_els"][li]})
            if len(x["after_flat"]) != len(names):
                continue
            before_flat = list(rec["before_s"])
            for li, l in enumerate(scn["lists"]):
                before_flat.append(rec["before_l"][li]["size"])
                before_flat.extend(rec["before_l"][li]["vals"])
            before_flat += [0] * (len(names) - len(before_flat))
            # elements that were grown for the solve and are gone afterwards have no observable final value
            if x["holes"]:
                hs = set(x["holes"])
                for a in m["call"]["randsets"]:
                    for nm, v in a["final"]:
                        if names.index(nm) in hs:
                            x["after_flat"][names.index(nm)] = v
                for nm, v in m["call"].get("unconVals", []):
                    if names.index(nm) in hs:
                        x["after_flat"][names.index(nm)] = v
            pseudo = {"fields": [{"name": n, "rand": True, "w": 8, "s": False} for n in names], "blocks": [], "calls": [{}]}
            c = {"call": {}, "before": before_flat, "after": x["after_flat"], "outcome": rec["outcome"], "exc": rec["exc"],
                 "obs": x["obs"], "uncon": rec["uncon"], "bounds": rec["bounds"],
                 "order_names": [(names[b_], names[a_]) for b_, a_ in x["req"].get("order", []) if b_ < len(names) and a_ < len(names)]}
            corr, orc, st = solvecheck.compare_call(S, pseudo, 0, c, m["call"])
            for f in corr + orc:
                f["case"] = ccase
                if f.get("signature", "").startswith("internal-exception"):
                    f["signature"] = exc_signature(scn, rec)
                # a spurious failure is C02's concern; with a random-size list it is the known over-constraining of the
                # elements the list is grown by (recorded under C02 as F46), not a statement of C04
                if f.get("signature") == "solvefailure-but-satisfiable" and any(l["randsz"] for l in scn["lists"]):
                    f["signature"] = "skip"
            orc = [f for f in orc if f.get("signature") != "skip"]
            # non-random list elements / scalars are judged by name here
            orc = [f for f in orc if f["signature"] != "nonrandom-field-changed"]
            for kk, v in st.items():
                cnt(kk, v)
            res["corr"].extend(corr)
            res["orc"].extend(orc)
            # ---- the property, evaluated on exactly the exposed lists
            if rec["outcome"] == "ok" and any(isinstance(x["iter"], str) for x in rec["exposed"]):
                pass        # a list could not be read at all (reported above): there is no exposed list to judge the constraints on
            elif rec["outcome"] == "ok":
                if "__err__" in sp:
                    res["corr"].append({"what": "list-spec-error", "case": ccase, "model": sp["__err__"], "impl": None})
                elif sp["specFail"]:
                    kinds = sorted({(_kind(tops_of(scn)[t]) + (":randsz" if _uses_randsz(scn, tops_of(scn)[t]) else "")) for t in sp["specFail"]})
                    for kind in kinds:          # one report per kind of failing statement (each has its own known-finding entry)
                        res["orc"].append({"signature": "list-constraint-violated-on-exposed-list:" + kind, "case": ccase,
                                           "observed": {"exposed": [e["iter"] for e in rec["exposed"]], "scalars": rec["after_s"],
                                                        "failing_statements": sp["specFail"]},
                                           "required": "every list constraint holds over exactly the elements the list exposes"})
                # fixed-size lists keep their length
                for li, l in enumerate(scn["lists"]):
                    if not l["randsz"] and rec["exposed"][li]["len"] != rec["before_l"][li]["size"]:
                        res["orc"].append({"signature": "fixed-size-list-changed-length", "case": ccase,
                                           "observed": rec["exposed"][li]["len"], "required": rec["before_l"][li]["size"]})
            if rec["outcome"] == "exception":
                break           # an exception from inside the library leaves the object in no defined state
            if len(res["samples"]) < 2:
                res["samples"].append({"lists": [(l["name"], l["w"], l["rand"], l["randsz"]) for l in scn["lists"]],
                                       "hard": m["call"]["randsets"][0]["hard"][:3] if m["call"]["randsets"] else [],
                                       "exposed": [e["iter"] for e in rec["exposed"]]})
    return res


def exc_signature(scn, rec):
    """signature of an exception from inside the library: type and the raising line"""
    exc = rec.get("exc") or ""
    typ = exc.split(":")[0]
    site = exc.split("|")[-1].strip() if "|" in exc else ""
    tag = ""
    if typ == "IndexError" and "base.field_l[int(s.rhs.val())]" in site and any(l["randsz"] for l in scn["lists"]):
        tag = ":F47"
    return "internal-exception:%s:%s%s" % (typ, site[:60], tag)


def tops_of(scn):
    return [s for b in sorted(scn["blocks"], key=lambda b: b["name"]) for s in b["stmts"] if s["k"] != "solve_order"]


def _kind(s):
    if s["k"] == "expr":
        e = s["e"]
        js = json.dumps(e)
        for k in ("sum", "product", "inl", "notinl", "size", "elem"):
            if '"k": "%s"' % k in js:
                return "membership" if k in ("inl", "notinl") else ("aggregate" if k in ("sum", "product") else k)
        return "expr"
    return s["k"]


def _uses_randsz(scn, s):
    js = json.dumps(s)
    return any(l["randsz"] and ('"l": %d' % li) in js for li, l in enumerate(scn["lists"]))


def _size_vs_field(scn, li):
    """is the size of list li compared with a field somewhere in the blocks?"""
    def walk(x):
        if isinstance(x, dict):
            if x.get("k") == "bin" and isinstance(x.get("l"), dict) and isinstance(x.get("r"), dict):
                a, b = x["l"], x["r"]
                if (a.get("k") == "size" and a.get("l") == li and b.get("k") == "fld") or \
                        (b.get("k") == "size" and b.get("l") == li and a.get("k") == "fld"):
                    return True
            return any(walk(v) for v in x.values())
        if isinstance(x, list):
            return any(walk(v) for v in x)
        return False
    return walk(scn["blocks"])


def _w(lists, stmts, fields=None, ops=None):
    return {"fields": fields or [{"name": "f0", "w": 2, "s": False, "rand": True, "val": 0, "enums": None}], "lists": lists,
            "blocks": [{"name": "c0", "stmts": stmts}], "ops": ops or [{"op": "randomize", "seed": 7}]}


def _rsz(w=2):
    return {"name": "l0", "w": w, "s": False, "rand": True, "randsz": True, "init": []}


SZ = {"k": "size", "l": 0}
WITNESSES = {
    # every 2-bit value occurs in a 4-element list of distinct 2-bit values, so 'f0 not in l0' cannot hold: the membership
    # test over a random-size list contributes nothing and the call returns
    "F45": _w([_rsz()], [{"k": "expr", "e": B("eq", SZ, I(4))}, {"k": "unique", "es": [{"k": "lref", "l": 0}]},
                         {"k": "expr", "e": {"k": "notinl", "e": F(0), "l": 0}}]),
    # the sum is built over the size value the list has when the rand set of its elements is built: the sum statement comes
    # before the size constraints, so the elements are solved first, over the 3 elements the list was grown to; the size
    # then ends below 3 and the exposed elements (all 1) sum to less than 3
    "F13b": _w([_rsz(3)], [{"k": "expr", "e": B("eq", {"k": "sum", "l": 0}, I(3))},
                           {"k": "foreach", "l": 0, "it": True, "idx": False, "body": [{"k": "expr", "e": B("eq", {"k": "it"}, I(1))}]},
                           {"k": "expr", "e": B("le", SZ, I(3))}, {"k": "expr", "e": B("ne", SZ, I(3))}]),
    # neighbour relation under the guard 'i < size-1' on a random-size list: the guard depends on a random field, is not
    # folded, and the expansion indexes one past the last element
    # the ranges are inferred before any list is grown: sum(l0) is then the empty sum, so f0 <= 0 and with it l1.size <= 0 is
    # inferred and l1 is not grown; l0 is grown to 3, the solve picks f0 up to the sum of three elements, and l1.size == f0
    # comes back with no element behind it
    "F70": _w([{"name": "l0", "w": 4, "s": False, "rand": True, "randsz": True, "init": []},
               {"name": "l1", "w": 4, "s": False, "rand": True, "randsz": True, "init": []}],
              [{"k": "expr", "e": B("le", {"k": "size", "l": 1}, I(6))}, {"k": "expr", "e": B("eq", {"k": "size", "l": 1}, F(0))},
               {"k": "expr", "e": B("ge", {"k": "sum", "l": 0}, F(0))}, {"k": "expr", "e": B("eq", {"k": "size", "l": 0}, I(3))}],
              fields=[{"name": "f0", "w": 3, "s": False, "rand": True, "val": 0, "enums": None}], ops=[{"op": "randomize", "seed": 8}]),
    "F47": _w([_rsz(3)], [{"k": "expr", "e": B("eq", SZ, I(3))},
                          {"k": "foreach", "l": 0, "it": False, "idx": True, "body": [
                              {"k": "if", "c": B("lt", {"k": "idx"}, B("sub", SZ, I(1))),
                               "t": [{"k": "expr", "e": B("le", E(0, {"k": "idx"}), E(0, B("add", {"k": "idx"}, I(1))))}],
                               "elifs": [], "else": None}]}]),
}


def run_witnesses(ck):
    """replay the recorded findings of this property; each still has to fail in the recorded way to be reported as known"""
    known = {k["id"]: k for k in ck.known if k.get("status") == "known"}
    sub = common.Check.__new__(common.Check)
    for fid, scn in WITNESSES.items():
        res = _worker((ck.seed, 0, 0, 0.0, [json.loads(json.dumps(scn))]))
        ck.count("known_finding_witnesses")
        sigs = [f["signature"] for f in res["orc"]]
        want = known.get(fid, {}).get("signature")
        if fid in known and want in sigs:
            f = [f for f in res["orc"] if f["signature"] == want][0]
            ck.oracle_fail(want, scn, f["observed"], known[fid]["what"])
        elif fid not in known and sigs:
            ck.oracle_fail(fid + ":witness-fails-but-not-listed:" + sigs[0], scn, res["orc"][0]["observed"], "listed in known_findings.json")
        # any other failure of the witness scenario is reported as it is
        for f in res["orc"]:
            if f["signature"] != want:
                ck.oracle_fail(f["signature"], f["case"], f["observed"], f["required"])
        for f in res["corr"]:
            ck.corr_fail(f["what"], f["case"], f["model"], f["impl"])


def object_list_facade(ck, n):
    """lists of objects as plain containers: after any history of append / extend / clear the list holds exactly the
    objects a Python list would hold — same length, same objects by identity through indexing and iteration"""
    import solvelib as S
    S.install()
    vsc = S.vsc

    @vsc.randobj
    class Elem(object):
        def __init__(self):
            self.x = vsc.rand_bit_t(4)

    @vsc.randobj
    class Host(object):
        def __init__(self, rand):
            self.objs = (vsc.rand_list_t if rand else vsc.list_t)(Elem())
    r = random.Random("C04/objlist/%d" % ck.seed)
    for i in range(n):
        with common.quiet():
            h = Host(r.random() < 0.6)
        ref, hist = [], []
        for _ in range(r.randint(2, 7)):
            c = r.random()
            if c < 0.55:
                e = Elem(); h.objs.append(e); ref.append(e); hist.append("append")
            elif c < 0.75:
                es = [Elem() for _ in range(r.randint(1, 2))]; h.objs.extend(es); ref.extend(es); hist.append("extend%d" % len(es))
            elif c < 0.9:
                h.objs.clear(); del ref[:]; hist.append("clear")
            else:
                try:
                    with common.quiet():
                        h.randomize()
                    hist.append("randomize")
                except Exception as ex:
                    hist.append("randomize!" + type(ex).__name__)
            ck.count("object_list_ops")
            try:
                got_len = len(h.objs)
                by_idx = [h.objs[k] for k in range(got_len)]
                by_it = list(h.objs)
            except Exception as ex:
                ck.oracle_fail("object-list-facade-raises:" + type(ex).__name__, {"object_list_history": list(hist)}, str(ex)[:200],
                               "len(), indexing and iteration work after every edit")
                break
            ok = got_len == len(ref) and len(by_idx) == len(ref) and all(a is b for a, b in zip(by_idx, ref)) \
                and len(by_it) == len(ref) and all(a is b for a, b in zip(by_it, ref))
            if not ok:
                ck.oracle_fail("edit-does-not-act-on-exposed-list:objects", {"object_list_history": list(hist)},
                               {"len": got_len, "indexing_matches": [a is b for a, b in zip(by_idx, ref)],
                                "iteration_matches": [a is b for a, b in zip(by_it, ref)], "expected_len": len(ref)},
                               "the list holds exactly the objects appended since the last clear, in order")
                break


def run(ck, n, randsz_p, extra=None):
    jobs = min(16, max(1, n // 20)) if extra is None else 1
    per = (n + jobs - 1) // jobs if extra is None else 0
    chunks = [(ck.seed, i, min(n, i + per), randsz_p, None) for i in range(0, n, per)] if extra is None else [(ck.seed, 0, 0, randsz_p, extra)]
    if len(chunks) == 1:
        results = [_worker(chunks[0])]
    else:
        results = common.pmap(_worker, chunks)
    for r in results:
        for k, v in r["counts"].items():
            ck.count(k, v)
        for f in r["corr"]:
            ck.corr_fail(f["what"], f["case"], f["model"], f["impl"])
        for f in r["orc"]:
            ck.oracle_fail(f["signature"], f["case"], f["observed"], f["required"])
        for s in r["samples"]:
            ck.sample(s)


def nested_scalar_foreach(ck, n_cases):
    """A list of objects each of which owns a scalar list of its own length, constrained by a foreach nested in a foreach over
    the objects (inner list reached through the outer iterator or through the outer index); between calls the user appends
    objects and grows inner lists.  Reference semantics evaluated here on the lists as they are after each call: the body
    holds for every outer index i and every inner index j of *that* object's list, the lengths are the user's."""
    import solvelib as S
    S.install()
    import vsc
    from vsc.model.rand_state import RandState
    rng = random.Random("C04/nested-scalar/%d" % ck.seed)
    OPS = {"eq": lambda a, b: a == b, "lt": lambda a, b: a < b, "ge": lambda a, b: a >= b, "ne": lambda a, b: a != b}
    for cno in range(n_cases):
        k1, k2, c1 = rng.randint(0, 3), rng.randint(0, 3), rng.randint(1, 9)
        op = rng.choice(sorted(OPS))
        via_it = rng.random() < 0.5          # p.data  vs  self.pkts[i].data
        inner_it = rng.random() < 0.4        # element iterator vs index on the inner list
        c0 = rng.randint(0, 5)

        @vsc.randobj
        class Packet:
            def __init__(self, n):
                self.tag = vsc.rand_uint8_t()
                self.data = vsc.rand_list_t(vsc.uint8_t(), n)
                # a list of random size owned by an element of a list of objects (F67)
                self.rs = vsc.randsz_list_t(vsc.uint8_t())

            @vsc.constraint
            def rs_c(self):
                self.rs.size >= 1
                self.rs.size <= 4
                with vsc.foreach(self.rs) as e:
                    e < 50

        @vsc.randobj
        class Burst:
            def __init__(self, sizes):
                self.pkts = vsc.rand_list_t(Packet(0))
                for n in sizes:
                    self.pkts.append(Packet(n))

            @vsc.constraint
            def c(self):
                with vsc.foreach(self.pkts, idx=True, it=True) as (i, p):
                    p.tag == i + c0
                    # (every mention of the list builds a fresh expression: the facade consumes them)
                    lst = (lambda: p.data) if via_it else (lambda: self.pkts[i].data)
                    if inner_it:
                        with vsc.foreach(lst()) as e:
                            cmp_(op, e, i * k1 + c1)
                    else:
                        with vsc.foreach(lst(), idx=True) as j:
                            cmp_(op, lst()[j], i * k1 + j * k2 + c1)

        def cmp_(o, a, b):
            if o == "eq":
                a == b
            elif o == "lt":
                a < b
            elif o == "ge":
                a >= b
            else:
                a != b
        sizes = [rng.randint(0, 4) for _ in range(rng.randint(1, 4))]
        hist = [["new", list(sizes)]]
        try:
            with common.quiet():
                b = Burst(sizes)
            for call in range(rng.randint(1, 3)):
                sd = rng.randrange(1 << 30)
                hist.append(["randomize", sd])
                b.set_randstate(RandState.mkFromSeed(sd))
                with common.quiet():
                    b.randomize()
                ck.count("eval_nested_scalar_calls")
                bad = []
                if len(b.pkts) != len(sizes):
                    bad.append("outer list has %d elements, the user put %d" % (len(b.pkts), len(sizes)))
                for i, p in enumerate(b.pkts):
                    vals = [int(v) for v in p.data]
                    if i < len(sizes) and len(vals) != sizes[i]:
                        bad.append("pkts[%d].data has %d elements, the user put %d" % (i, len(vals), sizes[i]))
                    try:
                        rs = [int(v) for v in p.rs]
                        if not (1 <= len(p.rs) <= 4 and len(rs) == len(p.rs) and all(v < 50 for v in rs)):
                            bad.append("pkts[%d].rs = %s with len() %d: size in 1..4, every element < 50, as many elements as len()" % (i, rs, len(p.rs)))
                    except IndexError:
                        bad.append("pkts[%d].rs: len() is %d but iterating raises IndexError (%d element models)" % (
                            i, len(p.rs), len(p.rs.get_model().field_l)))
                    if int(p.tag) != i + c0:
                        bad.append("pkts[%d].tag = %d, body requires %d" % (i, int(p.tag), i + c0))
                    for j, v in enumerate(vals):
                        rhs = i * k1 + c1 + (0 if inner_it else j * k2)
                        if not OPS[op](v, rhs):
                            bad.append("pkts[%d].data[%d] = %d, body requires %s %d" % (i, j, v, op, rhs))
                if bad:
                    ck.oracle_fail("nested-foreach-body-not-over-every-element",
                                   {"history": hist, "body": {"op": op, "k1": k1, "k2": k2, "c1": c1, "c0": c0, "through_iterator": via_it,
                                                              "inner_iterator": inner_it}}, bad[:6],
                                   "the body holds for every index of the outer list and every element of that object's own list")
                    break
                if rng.random() < 0.6:
                    n = rng.randint(0, 4)
                    with common.quiet():
                        b.pkts.append(Packet(n))
                    sizes.append(n)
                    hist.append(["append Packet", n])
                if rng.random() < 0.4:
                    k = rng.randrange(len(sizes))
                    with common.quiet():
                        b.pkts[k].data.append(0)
                    sizes[k] += 1
                    hist.append(["pkts[%d].data.append" % k])
        except Exception as e:
            ck.oracle_fail("nested-foreach:exception:%s" % type(e).__name__, {"history": hist}, str(e)[:300],
                           "a normal return (the body is satisfiable for these lists)")
    ck.sample({"kind": "nested foreach over per-object scalar lists", "cases": n_cases})


def main():
    tier, seed, replay = common.parse_args(sys.argv[1:])
    ck = common.Check("C04", tier, seed, ["C04"])
    obligations = common.obligations_for(["C04"])
    common.setup_repo_path()
    if replay:
        obj = json.load(open(replay))
        case = obj.get("case") or (obj.get("first_disagreement") or {}).get("case")
        run(ck, 0, 0.0, extra=[case])
    else:
        run_witnesses(ck)
        object_list_facade(ck, 400 if tier == "thorough" else 40)
        nested_scalar_foreach(ck, 150 if tier == "thorough" else 12)
        n = 8000 if tier == "thorough" else 240
        run(ck, n, float(os.environ.get("C04_RANDSZ", "0.25")))
    # failing-input search: model and implementation disagree but no run contradicts the property — re-run the
    # disagreeing histories under other random states and look for an oracle failure
    known_sigs = {k["signature"] for k in ck.known if k.get("status") == "known"}
    if not replay and ck.corr_failures and not [f for f in ck.oracle_failures if f["signature"] not in known_sigs]:
        rng = random.Random(seed + 41)
        # (cases whose lists are random first: only there can returned values contradict a statement)
        cases = sorted(ck.corr_failures, key=lambda f: (0 if any(l["rand"] for l in f["case"].get("lists", [])) else 1,
                                                        len(json.dumps(f["case"], default=str))))[:6]
        extra = []
        for f in cases:
            for _ in range(30):
                scn = json.loads(json.dumps({k: v for k, v in f["case"].items() if not k.startswith("_")}))
                for o in scn["ops"]:
                    if o["op"] == "randomize":
                        o["seed"] = rng.randrange(1 << 30)
                extra.append(scn)
        before = len(ck.corr_failures)
        run(ck, 0, 0.0, extra=extra)
        del ck.corr_failures[before:]
        ck.cov["failing_input_search_scenarios"] = len(extra)
    ck.cov.update({"programs": ck.counts.get("eval_scenarios", 0), "evaluations": ck.counts.get("calls", 0) + ck.counts.get("exposure_reads", 0),
                   "distinct_nontrivial": ck.counts.get("calls", 0),
                   "rule": "generated classes with 1-3 scalars and 1-2 scalar lists (2-4 bit elements; random fixed-size 0..4, non-random, random-size), "
                           "constraints: foreach with element and/or index terms, index arithmetic under index guards (l[i] vs l[i-1], l[i+1] under "
                           "i < size-1), sum, unique over lists and scalars, membership in a list, size, fixed element references; histories of "
                           "randomize / append / extend / clear / setitem; after every op len(), size, indexing and iteration are read"})
    rc = ck.finish(obligations=obligations,
                   assumptions=["as C01 for the solve itself", "lists of objects are generated by the object-tree checks (C03, C07, C08, C17), not here; enum lists are exercised by C18; nested foreach over per-object scalar lists by a hand-written family with an exact oracle (nested_scalar_foreach), outside the model",
                                "the property is evaluated by the driver on exactly the exposed elements (l.spec), independently of how the "
                                "implementation elaborated the constraints"],
                   theorems_lost=THEOREMS)
    sys.exit(rc)


if __name__ == "__main__":
    common.run_main(main)
