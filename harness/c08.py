"""C08 — constraints reach through the object hierarchy to exactly the fields they name."""
import os
import sys
sys.path.insert(0, os.path.dirname(os.path.abspath(__file__)))
import common
import worldcheck

THEOREMS = ["Pyvsc.C08.one_flag_per_scalar", "Pyvsc.C08.sub_blocks_iff_rand", "Pyvsc.C08.nonrandom_subtree_constant"]
RULE = ("as C03 with deeper trees (three levels in 70% of the cases), several structurally identical sub-objects of one class, and "
        "cross-level constraints written in the parent over member paths (self.s0.a1 < self.s1.a1 + self.m0); compared per call: "
        "instantiation order, the field each reference resolves to (variables are named by full member path in every lowered "
        "formula), rand-set membership by path, used flags, which sub-object blocks are active")

def subclass_element_witness(ck, tier, cases):
    """F64: a list element that is an instance of a subclass of the list's template type"""
    if cases is not None:
        return
    import solvelib as S
    S.install()
    import vsc

    @vsc.randobj
    class Item:
        def __init__(self):
            self.a = vsc.rand_uint8_t()
            self.z = vsc.rand_uint8_t()

    @vsc.randobj
    class Derived(Item):
        def __init__(self):
            super().__init__()
            self.m = vsc.rand_uint8_t()

    @vsc.randobj
    class U:
        def __init__(self):
            self.items = vsc.rand_list_t(Item())
            self.items.append(Item())
            self.items.append(Derived())

        @vsc.constraint
        def c(self):
            self.items[1].z == 7
    case = {"classes": "Item: a, z; Derived(Item): + m; U: items = rand_list_t(Item()) holding [Item(), Derived()]",
            "constraint": "self.items[1].z == 7"}
    ck.count("known_finding_witnesses")
    known = [k for k in ck.known if k["id"] == "F64" and k.get("status") == "known"]
    bad = None
    try:
        for sd in range(6):
            u = U()
            u.set_randstate(vsc.RandState.mkFromSeed(sd))
            with common.quiet():
                u.randomize()
            if int(u.items[1].z) != 7:
                bad = {"a": int(u.items[1].a), "z": int(u.items[1].z), "m": int(u.items[1].m)}
                break
    except Exception as e:
        ck.oracle_fail("internal-exception:%s:subclass-element" % type(e).__name__, case, str(e)[:200], "a normal return with items[1].z == 7")
        return
    if bad is not None:
        if known and bad["m"] == 7:
            ck.oracle_fail(known[0]["signature"], case, bad, known[0]["what"])
        else:
            ck.oracle_fail("reference-denotes-wrong-field:subclass-element", case, bad, "items[1].z == 7")


if __name__ == "__main__":
    common.run_main(lambda: worldcheck.standard_main(
        "C08", ["C08"], THEOREMS, {"nops": 6, "deep": 0.7, "derive": 0.3}, 150, 6000,
        ["as C01 for the solve itself", "lists of objects are generated: elements reached by index, and foreach over the list with iterator and/or index"],
        RULE, keep=lambda w: not w.startswith("callbacks"), extra_run=subclass_element_witness))
