"""C08 — constraints reach through the object hierarchy to exactly the fields they name."""
import os
import sys
sys.path.insert(0, os.path.dirname(os.path.abspath(__file__)))
import common
import worldcheck

THEOREMS = ["Pyvsc.C08.one_flag_per_scalar", "Pyvsc.C08.sub_blocks_iff_rand", "Pyvsc.C08.nonrandom_subtree_constant"]
RULE = ("as C03 with deeper trees (three levels in 70% of the cases), several structurally identical sub-objects of one class, and "
        "cross-level constraints written in the parent over member paths (self.s0.a1 < self.s1.a1 + self.m0); compared per call: "
        "instantiation order, the field each reference resolves to (variables are named by full member path in every lowered "
        "formula), rand-set membership by path, used flags, which sub-object blocks are active")

if __name__ == "__main__":
    common.run_main(lambda: worldcheck.standard_main(
        "C08", ["C08"], THEOREMS, {"nops": 6, "deep": 0.7, "derive": 0.3}, 150, 6000,
        ["as C01 for the solve itself", "lists of objects are generated: elements reached by index, and foreach over the list with iterator and/or index"],
        RULE, keep=lambda w: not w.startswith("callbacks")))
