"""Engine for the object-tree checks (C03, C07, C08, C17): generator, comparison with `o.call`."""
import json
import multiprocessing
import os
import random
import sys

sys.path.insert(0, os.path.dirname(os.path.abspath(__file__)))
import common
from common import Drv
from solvecheck import Gen, B, I, compare_call

CMP = ["eq", "ne", "lt", "le", "gt", "ge"]


class WGen(Gen):
    """expressions over member paths instead of field indices"""

    def __init__(self, rng, profile):
        super().__init__(rng, profile)

    def decl(self, name, bits_left):
        r = self.r
        if r.random() < 0.1:
            vals = r.sample(range(-2, 7), r.randint(2, 3))
            return {"name": name, "w": 32, "s": True, "rand": r.random() < 0.8, "val": r.choice(vals), "enums": vals}
        w = r.choice([1, 2, 2, 3, 3, 4])
        s = r.random() < 0.3
        lo, hi = (-(1 << (w - 1)), (1 << (w - 1)) - 1) if s else (0, (1 << w) - 1)
        return {"name": name, "w": w, "s": s, "rand": r.random() < 0.75, "val": r.randint(lo, hi), "enums": None}

    def pexpr(self, paths, d):
        """boolean expression over the given (path, decl) list"""
        r = self.r
        fs = [dcl for _, dcl in paths]
        e = self.boolean(fs, d)
        return self.repath(e, paths)

    def repath(self, e, paths):
        if isinstance(e, dict):
            if e.get("k") == "fld" and "i" in e:
                return {"k": "fld", "path": list(paths[e["i"]][0])}
            return {k: self.repath(v, paths) for k, v in e.items()}
        if isinstance(e, list):
            return [self.repath(x, paths) for x in e]
        return e

    def pstmts(self, paths, n_lo, n_hi):
        fs = [dcl for _, dcl in paths]
        ss = [self.stmt(fs, 1) for _ in range(self.r.randint(n_lo, n_hi))]
        return self.repath(ss, paths)


def rel_scalars(scn, cname, path=()):
    """scalars a constraint of class `cname` can name by attribute path; the `size` of a list that is itself reached through a
    list element is not among them (the facade rejects it: 'Composite ... does not contain a field "size"')"""
    import worldlib as W
    return [x for x in W.scalar_paths(scn, cname, path)
            if not (x[0][-1] == "size" and any(c.endswith("]") for c in x[0][:-1]))]


def gen_world(rng, profile):
    import worldlib as W
    g = WGen(rng, dict(profile, big=0.0, soft=profile.get("soft", 0.08), enum=0.0))
    r = rng
    classes = {}
    # some trees are forced to hold a list of objects inside a sub-object of the root that may itself be non-random there
    force_sub = r.random() < profile.get("sublist", 0.15)
    # leaf
    classes["L"] = {"base": None, "fields": [g.decl("a%d" % i, 0) for i in range(r.randint(2, 3))], "subs": [], "blocks": [],
                    "pre": r.random() < 0.7, "post": r.random() < 0.7}
    scn = {"classes": classes, "root": "L", "ops": []}
    lp = rel_scalars(scn, "L")
    classes["L"]["blocks"] = [{"name": "c%d" % i, "stmts": g.pstmts(lp, 1, 2)} for i in range(r.randint(1, 2))]
    if r.random() < profile.get("plainbase", 0.25):
        # the leaf class derives from an ordinary Python class that declares constraint blocks (one of its own name, maybe
        # one the leaf overrides): they are enforced on every object of the hierarchy like any other block
        classes["P"] = {"base": None, "plain": True, "fields": [], "subs": [], "pre": False, "post": False,
                        "blocks": [{"name": "p0", "stmts": g.pstmts(lp, 1, 2)}] +
                                  ([{"name": "c0", "stmts": g.pstmts(lp, 1, 1)}] if r.random() < 0.4 else [])}
        classes["L"]["base"] = "P"
    have_d = r.random() < profile.get("derive", 0.5)
    if have_d:
        # derived leaf: overrides one block name, may add a field and a block
        d = {"base": "L", "fields": [g.decl("b0", 0)] if r.random() < 0.5 else [], "subs": [], "blocks": [],
             "pre": r.random() < 0.3, "post": False}
        classes["D"] = d
        dp = rel_scalars(scn, "D")
        d["blocks"] = [{"name": "c0", "stmts": g.pstmts(dp, 1, 2)}]
        if r.random() < 0.5:
            d["blocks"].append({"name": "d0", "stmts": g.pstmts(dp, 1, 1)})
    leafs = ["L", "D"] if have_d else ["L"]
    # mid
    m = {"base": None, "fields": [g.decl("m%d" % i, 0) for i in range(r.randint(1, 2))],
         "subs": [{"name": "s%d" % i, "cls": r.choice(leafs), "rand": r.random() < 0.7} for i in range(r.randint(1, 3))],
         "blocks": [], "pre": r.random() < 0.6, "post": r.random() < 0.6}
    classes["M"] = m
    mp = rel_scalars(scn, "M")
    m["blocks"] = [{"name": "k%d" % i, "stmts": g.pstmts(mp, 1, 2)} for i in range(r.randint(1, 2))]
    if r.random() < 0.35:
        # a block that carries the name of a block of the sub-objects: toggles by name must stay with their own object
        m["blocks"][0]["name"] = "c0"
    root = "M"
    if force_sub or r.random() < profile.get("deep", 0.4):
        un = r.random() < 0.5
        t = {"base": None, "fields": [g.decl("t0", 0)],
             # (half of the trees reuse the member names of the class below: a path like s0.s0 names two different objects)
             "subs": [{"name": ("u%d" if un else "s%d") % i, "cls": r.choice(["M"] + leafs), "rand": r.random() < 0.75} for i in range(r.randint(1, 2))],
             "blocks": [], "pre": r.random() < 0.6, "post": r.random() < 0.6}
        if force_sub:
            t["subs"][0].update({"cls": "M", "rand": r.random() < 0.5})
        classes["T"] = t
        tp = rel_scalars(scn, "T")
        t["blocks"] = [{"name": r.choice(["q0", "q0", "c0", "k0"]), "stmts": g.pstmts(tp, 1, 2)}]
        root = "T"
    scn["root"] = root
    # a list of objects in the mid or top class: elements are reached by index, take the list's randomness, carry their
    # class's blocks and callbacks
    if force_sub or r.random() < profile.get("olists", 0.35):
        host = classes["M" if force_sub else r.choice(["M", root])]
        host["olists"] = [{"name": "ol0", "cls": r.choice(leafs), "n": r.randint(1, 2), "rand": r.random() < 0.75}]
        if r.random() < 0.3:
            # a list of random size: the user puts the objects in, the size is solved (at most the number of objects)
            host["olists"][0].update({"rand": True, "randsz": True})
        hp = [x for x in rel_scalars(scn, "M" if host is classes["M"] else root) if not x[1].get("is_size") or not host["olists"][0].get("randsz")]
        host["blocks"].append({"name": "zz0", "stmts": g.pstmts([x for x in hp if "ol0" in x[0]] + hp[:2], 1, 2)})
        ol = host["olists"][0]
        ef = [f for f in W.members(scn, ol["cls"]) if f[1] == "scalar" and not f[2].get("enums")]
        if (force_sub or r.random() < 0.6) and ef and hp:
            # foreach over the list of objects: element fields through the iterator and/or by index
            use_it = r.random() < 0.6
            use_idx = (not use_it) or r.random() < 0.5
            body = []
            for _ in range(r.randint(1, 2)):
                f = r.choice(ef)
                lhs = {"k": "itfld", "name": f[0]}
                d = r.random()
                if d < 0.4:
                    rhs = I(r.randint(0, 6))
                elif d < 0.7 and use_idx:
                    rhs = B("add", {"k": "idx"}, I(r.randint(0, 2)))
                else:
                    rhs = {"k": "fld", "path": list(r.choice(hp[:3])[0])}
                st = {"k": "expr", "e": B(r.choice(["lt", "le", "ne", "ge", "eq"]), lhs, rhs)}
                if r.random() < 0.35:
                    # guarded by a condition over a field of the same element (and, with an index, over the index): every
                    # element follows the rule selected by its own fields
                    gf = r.choice(ef)
                    cond = B(r.choice(["lt", "ge", "eq", "ne"]), {"k": "itfld", "name": gf[0]}, I(r.randint(0, 3)))
                    st = {"k": "implies", "c": cond, "b": [st]}
                body.append(st)
            host["blocks"].append({"name": "zz1", "stmts": [{"k": "foreach_o", "list": ["ol0"], "n": ol["n"], "it": use_it,
                                                              "idx": use_idx, "body": body}]})
    # a list of objects each of which holds a list of objects, constrained by a nested foreach: the inner list is reached
    # through the outer iterator or index
    if r.random() < profile.get("nested", 0.2):
        leaf = r.choice(leafs)
        classes["N"] = {"base": None, "fields": [g.decl("n0", 0)], "subs": [], "blocks": [], "pre": r.random() < 0.4,
                        "post": r.random() < 0.4,
                        "olists": [{"name": "il0", "cls": leaf, "n": r.randint(1, 2), "rand": r.random() < 0.85}]}
        host = classes[root]
        n1 = r.randint(1, 2)
        host.setdefault("olists", []).append({"name": "nl0", "cls": "N", "n": n1, "rand": r.random() < 0.85})
        ef = [f for f in W.members(scn, leaf) if f[1] == "scalar" and not f[2].get("enums")]
        hs = [x for x in rel_scalars(scn, root) if len(x[0]) == 1 and not x[1].get("enums")]
        if ef:
            it1 = r.random() < 0.6
            it2 = r.random() < 0.6
            idx2 = (not it2) or r.random() < 0.5
            body = []
            for _ in range(r.randint(1, 2)):
                f = r.choice(ef)
                d = r.random()
                if d < 0.5 or not hs:
                    rhs = I(r.randint(0, 6))
                elif d < 0.75 and idx2:
                    rhs = B("add", {"k": "idx"}, I(r.randint(0, 2)))
                else:
                    rhs = {"k": "fld", "path": list(r.choice(hs)[0])}
                body.append({"k": "expr", "e": B(r.choice(["lt", "le", "ne", "ge", "eq"]), {"k": "itfld", "name": f[0]}, rhs)})
            host["blocks"].append({"name": "zz2", "stmts": [
                {"k": "foreach_o", "list": ["nl0"], "n": n1, "it": it1, "idx": (not it1) or r.random() < 0.4,
                 "body": [{"k": "foreach_o", "list": ["il0"], "rel": True, "n": classes["N"]["olists"][0]["n"], "it": it2, "idx": idx2,
                           "body": body}]}]})
    # pre_randomize of some classes assigns a value to one of the class's non-random fields
    for cn, cd in classes.items():
        nr = [f for f in cd["fields"] if not f["rand"] and not f.get("enums")]
        if cd.get("pre") and nr and r.random() < 0.6:
            f = r.choice(nr)
            lo, hi = (-(1 << (f["w"] - 1)), (1 << (f["w"] - 1)) - 1) if f["s"] else (0, (1 << f["w"]) - 1)
            cd["preset"] = {"field": f["name"], "val": r.randint(lo, hi)}
    # keep the number of random bits enumerable: narrow declared-random scalars beyond 13 bits
    sp = [x for x in W.scalar_paths(scn) if not x[1].get("is_size")]
    ops = []
    opaths = [x for x in W.object_paths(scn) if x[1] is not None]
    # lists of objects of fixed size (their path and class): the user may refill them between calls
    fixed_lists = [list(p) for p, cn in W.object_paths(scn) if cn is None and
                   not any(l.get("randsz") for cd in classes.values() for l in cd.get("olists", []) if l["name"] == p[-1])]
    ninst = 1
    for _ in range(r.randint(2, profile.get("nops", 7))):
        x = r.random()
        inst = r.randrange(ninst)
        if fixed_lists and r.random() < 0.12:
            ops.append({"op": "relist", "path": r.choice(fixed_lists), "inst": inst})
            continue
        if r.random() < profile.get("new", 0.12) and ninst < 3:
            ops.append({"op": "new"})
            ninst += 1
            continue
        if x < 0.45:
            tp_, tc = r.choice(opaths) if r.random() < 0.35 else opaths[0]
            inline = None
            if r.random() < 0.25:
                inline = g.pstmts(rel_scalars(scn, tc), 1, 1)
            ops.append({"op": "randomize", "target": list(tp_), "inline": inline, "seed": r.randrange(1 << 30), "inst": inst})
        elif x < 0.6:
            p, dcl = r.choice(sp)
            w, s = dcl["w"], dcl["s"]
            if dcl.get("enums"):
                v = r.choice(dcl["enums"])
            else:
                lo, hi = (-(1 << (w - 1)), (1 << (w - 1)) - 1) if s else (0, (1 << w) - 1)
                v = r.randint(lo, hi)
            ops.append({"op": "set", "path": list(p), "val": v, "inst": inst})
        elif x < 0.8:
            p, dcl = r.choice(sp)
            ops.append({"op": "rand_mode", "path": list(p), "val": r.random() < 0.4, "inst": inst})
        else:
            op_, oc = r.choice(opaths)
            bl = W.blocks_of(scn, oc)
            if bl:
                ops.append({"op": "constraint_mode", "obj": list(op_), "block": r.choice(bl)["name"], "val": r.random() < 0.35, "inst": inst})
    # a block over list elements (indexed references, foreach) switched off and on again around calls: while it is off the
    # elements are as free as any field no enabled block mentions
    zz = [(list(op_), b["name"]) for op_, oc in opaths for b in W.blocks_of(scn, oc) if b["name"].startswith("zz")]
    if zz and r.random() < 0.6:
        op_, bn = r.choice(zz)
        ops.append({"op": "constraint_mode", "obj": op_, "block": bn, "val": False, "inst": 0})
        ops.append({"op": "randomize", "target": [], "inline": None, "seed": r.randrange(1 << 30), "inst": 0})
        if r.random() < 0.6:
            ops.append({"op": "constraint_mode", "obj": op_, "block": bn, "val": True, "inst": 0})
            # ... and the lists it ranges over refilled before the next call: whatever the call made while the block was off
            # did to the block's statements must not survive it
            for fl in fixed_lists:
                if r.random() < 0.7:
                    ops.append({"op": "relist", "path": fl, "inst": 0})
    # a call on the whole tree, the list of a sub-object refilled, then a call on that sub-object alone (which the first call
    # may have reached as a non-random member): it is solved over the list it holds then
    sub_lists = [fl for fl in fixed_lists if len(fl) > 1 and any(list(p_) == fl[:-1] for p_, _ in opaths)]
    if sub_lists and r.random() < (0.9 if force_sub else 0.6):
        fl = r.choice(sub_lists)
        ops.append({"op": "randomize", "target": [], "inline": None, "seed": r.randrange(1 << 30), "inst": 0})
        ops.append({"op": "relist", "path": fl, "inst": 0})
        ops.append({"op": "randomize", "target": fl[:-1], "inline": None, "seed": r.randrange(1 << 30), "inst": 0})
    if r.random() < 0.2:
        # a call on an object in which nothing is random and no block is on: there is nothing to solve, the callbacks of
        # the object still run, every value stays
        leafs_p = [(list(p_), cn) for p_, cn in opaths if cn in ("L", "D") and not any(c.endswith("]") for c in p_)]
        if leafs_p:
            lp_, lc = r.choice(leafs_p)
            for p_, dcl in sp:
                if list(p_[:-1]) == lp_ and len(p_) == len(lp_) + 1:
                    ops.append({"op": "rand_mode", "path": list(p_), "val": False, "inst": 0})
            for b in W.blocks_of(scn, lc):
                ops.append({"op": "constraint_mode", "obj": lp_, "block": b["name"], "val": False, "inst": 0})
            ops.append({"op": "randomize", "target": lp_, "inline": None, "seed": r.randrange(1 << 30), "inst": 0})
    for i in range(ninst):
        ops.append({"op": "randomize", "target": [], "inline": None, "seed": r.randrange(1 << 30), "inst": i})
    scn["ops"] = ops
    return scn


def compare_world(scn, k, c, m):
    """correspondence + oracle failures of one randomize op; m = o.call answer"""
    import solvelib as S
    corr, orc, st = [], [], {}
    case = {"classes": scn["classes"], "root": scn["root"], "ops": scn["ops"][:k + 1]}

    def cf(what, model, impl):
        corr.append({"what": what, "case": case, "model": model, "impl": impl})

    def of(sig, observed, required):
        orc.append({"signature": sig, "case": case, "observed": observed, "required": required})
    if "__err__" in m:
        cf("world-model-error", m["__err__"], None)
        return corr, orc, st
    names = c["names"]
    if m["scalars"] != names:
        cf("instantiation-order", m["scalars"], names)
        return corr, orc, st
    # used-as-random flags for the fields the call touched
    for nm, u in c["used"].items():
        if nm in m["used"] and m["used"][nm] != u:
            cf("used_rand." + nm, m["used"][nm], u)
    # enabled flags
    mb = [(b["obj"], b["block"], b["enabled"]) for b in m["blocks"]]
    target = ".".join(c["op"]["target"])
    ib = [b for b in c["blocks"] if b[0] == target or b[0].startswith(target + ".") or target == ""]
    if sorted(mb) != sorted(ib):
        cf("blocks.enabled", sorted(mb), sorted(ib))
    # callbacks
    pre = [p for ph, p in c["callbacks"] if ph == "pre"]
    post = [p for ph, p in c["callbacks"] if ph == "post"]
    has_pre = {".".join(p) for p, cn in __import__("worldlib").object_paths(scn) if _has_cb(scn, cn, "pre")}
    has_post = {".".join(p) for p, cn in __import__("worldlib").object_paths(scn) if _has_cb(scn, cn, "post")}
    want_pre = [p for p in m["callbacks"] if p in has_pre]
    want_post = [p for p in m["callbacks"] if p in has_post]
    if pre != want_pre:
        cf("callbacks.pre", want_pre, pre)
        if sorted(pre) != sorted(want_pre):
            # the model's callback set is the Spec's (theorem C17.callback_iff): once on every random composite
            of("callback-pre-not-exactly-once-per-random-object", {"pre": pre}, {"pre": want_pre})
    if c["outcome"] == "ok" and post != want_post:
        cf("callbacks.post", want_post, post)
        if sorted(post) != sorted(want_post):
            of("callback-post-not-exactly-once-per-random-object", {"post": post}, {"post": want_post})
    # Spec for callbacks: exactly once per random composite (root included), none otherwise
    if len(set(pre)) != len(pre) or (c["outcome"] == "ok" and len(set(post)) != len(post)):
        of("callback-more-than-once", {"pre": pre, "post": post}, "each callback at most once per call")
    # the flattened call
    sub_scn = {"fields": [{"name": n} for n in names], "blocks": [], "calls": [{}]}
    c2 = dict(c, before=[c["before"][n] for n in names], after=[c["after"][n] for n in names])
    a, b, st = _compare_flat(S, names, case, c2, m["call"])
    corr += a
    orc += b
    # post_randomize runs after every field holds its final value
    if c["outcome"] == "ok":
        for pth, snap in c.get("post_snaps", []):
            st["post_snapshots"] = st.get("post_snapshots", 0) + 1
            diff = {n: (snap[n], c["after"][n]) for n in names if snap.get(n) != c["after"][n]}
            if diff:
                of("post_randomize-saw-non-final-values", {"object": pth, "seen_vs_final": diff},
                   "post_randomize is invoked after every field holds its final value")
    # C03 Spec: fields not random in the call keep their values (success or failure)
    changed = [n for n in names if c["before"][n] != c["after"][n]]
    bad = [n for n in changed if not m["used"].get(n, False)]
    if bad:
        of("nonrandom-field-changed", {"fields": bad, "before": {n: c["before"][n] for n in bad}, "after": {n: c["after"][n] for n in bad}},
           "fields that are not random in the call keep their values")
    return corr, orc, st


def _has_cb(scn, cname, which):
    c = cname            # (None: a list, which has no class and no callbacks)
    while c is not None:
        if scn["classes"][c].get(which):
            return True
        c = scn["classes"][c].get("base")
    return False


def _compare_flat(S, names, case, c, m):
    scn = {"fields": [{"name": n, "rand": True} for n in names], "blocks": [], "calls": [{}]}
    corr, orc, st = compare_call(S, scn, 0, c, m)
    for f in corr + orc:
        f["case"] = case
    return corr, orc, st


def _worker(args):
    prop, seed, lo, hi, profile, extra = args
    import solvelib as S
    import worldlib as W
    S.install()
    drv = Drv()
    res = {"counts": {}, "corr": [], "orc": [], "samples": [], "digests": set()}

    def cnt(k, n=1):
        res["counts"][k] = res["counts"].get(k, 0) + n
    scns = extra if extra is not None else [gen_world(random.Random("%s/%d/%d" % (prop, seed, i)), profile) for i in range(lo, hi)]
    runs, reqs = [], []
    for scn in scns:
        common.note_inflight(scn)
        try:
            calls = W.run_world(scn)
        except W.S.SolverBudget:
            cnt("abandoned_solver_budget")
            continue
        except Exception as e:
            import traceback
            res["orc"].append({"signature": "construction-exception:" + type(e).__name__, "case": scn,
                               "observed": traceback.format_exc()[-700:], "required": "the scenario constructs and runs"})
            continue
        runs.append((scn, calls))
        reqs.extend(c["req"] for c in calls)
    models = drv.batch(reqs)
    # the statement trees read before and after every call, against the override/rollback model
    tcalls = [(scn, k, c) for scn, calls in runs
              for k, c in zip([i for i, o in enumerate(scn["ops"]) if o["op"] == "randomize"], calls)]
    for (scn, k, c), tm in zip(tcalls, drv.batch([{"op": "t.rollback", "tree": c["tree"][0]} for _, _, c in tcalls])):
        import treelib
        cnt("tree_checks")
        cnt("tree_expandable_statements", treelib.n_expandable(c["tree"][0]))
        case = {"classes": scn["classes"], "root": scn["root"], "ops": scn["ops"][:k + 1]}
        if "__err__" in tm:
            res["corr"].append({"what": "override-model-error", "case": case, "model": tm["__err__"], "impl": None})
        elif not tm["clean"]:
            res["corr"].append({"what": "statement-tree-holds-overrides-between-calls (C16R.calls_restore)", "case": case,
                                "model": "no override outside a call", "impl": c["tree"][0]})
        elif tm["after"] != c["tree"][1]:
            res["corr"].append({"what": "statement-tree-after-call (Ovr.Stmt.call vs ArrayConstraintBuilder/DistConstraintBuilder + rollback)",
                                "case": case, "model": tm["after"], "impl": c["tree"][1]})
    mi = 0
    for scn, calls in runs:
        cnt("eval_scenarios")
        ki = [i for i, o in enumerate(scn["ops"]) if o["op"] == "randomize"]
        for k, c in zip(ki, calls):
            m = models[mi]
            mi += 1
            cnt("calls")
            cnt("outcome_" + c["outcome"])
            cnt("callbacks_fired", len(c["callbacks"]))
            cnt("target_is_subobject", 1 if c["op"]["target"] else 0)
            corr, orc, st = compare_world(scn, k, c, m)
            for kk, v in st.items():
                cnt(kk, v)
            res["corr"].extend(corr)
            res["orc"].extend(orc)
            if "__err__" not in m:
                cnt("fields_not_random_in_call", sum(1 for v in m["used"].values() if not v))
                cnt("blocks_disabled", sum(1 for b in m["blocks"] if not b["enabled"]))
                cnt("blocks_inactive_nonrandom_owner", sum(1 for b in m["blocks"] if b["enabled"] and not b["active"]))
                res["digests"].add(json.dumps([m["used"], m["blocks"], m["callbacks"]])[:3000])
                if len(res["samples"]) < 2:
                    res["samples"].append({"target": c["op"]["target"], "used": m["used"], "callbacks": m["callbacks"],
                                           "outcome": c["outcome"]})
    return res


def run(ck, prop, n, profile, extra=None):
    jobs = min(16, max(1, n // 20)) if extra is None else min(8, max(1, len(extra) // 10))
    chunks = []
    if extra is not None:
        per = max(1, (len(extra) + jobs - 1) // jobs)
        chunks = [(prop, ck.seed, 0, 0, profile, extra[i:i + per]) for i in range(0, len(extra), per)]
    else:
        per = (n + jobs - 1) // jobs
        chunks = [(prop, ck.seed, i, min(n, i + per), profile, None) for i in range(0, n, per)]
    if len(chunks) == 1:
        results = [_worker(chunks[0])]
    else:
        results = common.pmap(_worker, chunks)
    digests = set()
    for r in results:
        for k, v in r["counts"].items():
            ck.count(k, v)
        for f in r["corr"]:
            ck.corr_fail(f["what"], f["case"], f["model"], f["impl"])
        for f in r["orc"]:
            ck.oracle_fail(f["signature"], f["case"], f["observed"], f["required"])
        for s in r["samples"]:
            ck.sample(s)
        digests |= r["digests"]
    return digests


def standard_main(prop, modules, theorems, profile, n_quick, n_thorough, assumptions, rule, keep, extra_run=None):
    """keep: predicate on failure records (what / signature) selecting what this property judges"""
    tier, seed, replay = common.parse_args(sys.argv[1:])
    ck = common.Check(prop, tier, seed, modules)
    obligations = common.obligations_for(modules)
    common.setup_repo_path()
    if replay:
        obj = json.load(open(replay))
        case = obj.get("case") or (obj.get("first_disagreement") or {}).get("case")
        if isinstance(case, dict) and (case.get("free") or case.get("rangelists")) and extra_run is not None:
            digests = set()
            extra_run(ck, tier, [case])
        elif not isinstance(case, dict) or "classes" not in case:
            raise common.InfraError("replay file holds no object-tree scenario")
        else:
            digests = run(ck, prop, 0, profile, extra=[case])
    else:
        n = n_thorough if tier == "thorough" else n_quick
        digests = run(ck, prop, n, profile)
        if extra_run is not None:
            extra_run(ck, tier, None)
    # exceptions escaping randomize() are C02's concern (known finding F33 among them); here they only end the call
    nexc = sum(1 for f in ck.oracle_failures if f["signature"].startswith("internal-exception"))
    ck.oracle_failures[:] = [f for f in ck.oracle_failures if not f["signature"].startswith("internal-exception") and keep(f["signature"])]
    ck.corr_failures[:] = [f for f in ck.corr_failures if keep(f["what"])]
    ck.cov.update({"programs": ck.counts.get("eval_scenarios", 0), "distinct_nontrivial": len(digests), "rule": rule,
                   "calls_ended_by_internal_exception_not_judged_here": nexc,
                   "evaluations": ck.counts.get("calls", 0)})
    # failing-input search: rerun the disagreeing histories under other random states
    if ck.corr_failures and not ck.oracle_failures and not replay:
        cases = sorted(ck.corr_failures, key=lambda f: len(json.dumps(f["case"], default=str)))[:5]
        extra, extra_free = [], []
        rng = random.Random(seed + 23)
        for f in cases:
            for _ in range(25):
                scn = json.loads(json.dumps(f["case"]))
                if scn.get("free") or scn.get("rangelists"):
                    for c in scn["calls"]:
                        c["seed"] = rng.randrange(1 << 30)
                    extra_free.append(scn)
                    continue
                for o in scn["ops"]:
                    if o["op"] == "randomize":
                        o["seed"] = rng.randrange(1 << 30)
                extra.append(scn)
        before = len(ck.corr_failures)
        if extra:
            run(ck, prop, 0, profile, extra=extra)
        if extra_free and extra_run is not None:
            extra_run(ck, tier, extra_free)
        del ck.corr_failures[before:]
        ck.oracle_failures[:] = [f for f in ck.oracle_failures if not f["signature"].startswith("internal-exception") and keep(f["signature"])]
        ck.cov["failing_input_search_scenarios"] = len(extra) + len(extra_free)
    rc = ck.finish(obligations=obligations, assumptions=assumptions, theorems_lost=theorems)
    sys.exit(rc)
